//! C13 — saving to a path is all-or-nothing under I/O failure (engine E4: fault / kill-point enumeration).
//!
//! Injectors (each exhaustive over an index, nothing sampled):
//!  sink    in-process failing `io::Write`(+`Seek`) at write-call index i x mode, for the three writer APIs
//!  rlimit  path save in a forked child under RLIMIT_FSIZE = L (SIGXFSZ ignored), every L / boundary L
//!  targets unwritable / odd targets (read-only directory, directory target, no extension, missing parent, ...)
//!  strace-err / strace-kill   errno / SIGKILL injected at the k-th call of every file syscall of the save window
use crate::common::*;
use crate::e1::*;
use crate::pool::*;
use serde_json::{json, Value};
use std::collections::BTreeMap;
use std::io::{self, Seek, SeekFrom, Write};
use std::path::{Path, PathBuf};
use std::time::Duration;

#[path = "c13_agile.rs"]
mod agile;
#[path = "c13_core.rs"]
mod core;
#[path = "c13_strace.rs"]
mod st;
use self::core::*;

pub fn entry() -> crate::Entry {
    crate::Entry { id: "C13", run, space, replay }
}

fn push(sink: &mut Sink, f: Finding, tags: &[String], case: &Value) {
    // per-class census in the evidence counters: "V|clause|symptom|composite tag"
    sink.count(&format!("V|{}|{}|{}", f.clause, f.symptom, tags.first().map(|s| s.as_str()).unwrap_or("")), 1);
    sink.violations.push(Violation { clause: f.clause.to_string(), symptom: f.symptom, tags: tags.to_vec(), case: case.clone(), detail: f.detail });
}

// ---------------------------------------------------------------------------------------------
// plan: quantities MEASURED on fault-free runs, from which every case list is derived deterministically.
// Computed by the parent (and by --replay), stored in the work directory, loaded by the pool workers.

#[derive(Clone, Debug, Default)]
pub struct Plan {
    /// size of the destination file after a fault-free path save, per workload
    pub size: BTreeMap<String, u64>,
    /// number of write calls of a fault-free run, per "<api>/<chunk>"
    pub sink_calls: BTreeMap<String, u64>,
    /// syscalls of the save window of a fault-free traced run, per "<workload>/<dest>": (name, ordinal since exec, args, result)
    pub windows: BTreeMap<String, Vec<st::Sys>>,
    pub strace_ok: bool,
    pub strace_note: String,
    pub drop_priv_ok: bool,
}
impl Plan {
    fn to_json(&self) -> Value {
        let w: BTreeMap<String, Vec<Value>> = self.windows.iter().map(|(k, v)| (k.clone(), v.iter().map(|s| s.to_json()).collect())).collect();
        json!({"size": self.size, "sink_calls": self.sink_calls, "windows": w, "strace_ok": self.strace_ok, "strace_note": self.strace_note, "drop_priv_ok": self.drop_priv_ok})
    }
    fn from_json(v: &Value) -> Option<Plan> {
        let mut p = Plan::default();
        for (k, x) in v["size"].as_object()? {
            p.size.insert(k.clone(), x.as_u64()?);
        }
        for (k, x) in v["sink_calls"].as_object()? {
            p.sink_calls.insert(k.clone(), x.as_u64()?);
        }
        for (k, x) in v["windows"].as_object()? {
            p.windows.insert(k.clone(), x.as_array()?.iter().filter_map(st::Sys::from_json).collect());
        }
        p.strace_ok = v["strace_ok"].as_bool()?;
        p.strace_note = v["strace_note"].as_str().unwrap_or("").to_string();
        p.drop_priv_ok = v["drop_priv_ok"].as_bool()?;
        Some(p)
    }
}
fn plan_path(tier: Tier) -> String {
    format!("{}/plan-{}.json", work_dir("C13"), tier.name())
}
fn is_worker() -> bool {
    std::env::args().nth(1).as_deref() == Some("--worker")
}

fn compute_plan(tier: Tier, fx: &Fx) -> Plan {
    let mut p = Plan::default();
    // (1) fault-free forked path saves: sizes (also proves the fork runner and the reference agree)
    for wl in WLS {
        let cd = CaseDir::create(&format!("plan-size-{}", wl.name()));
        cd.prepare(fx, wl, Pre::Absent);
        let (dest, src) = (cd.dest(wl), cd.src());
        let o = run_forked(&ChildCfg { fsize: None, drop_priv: false, timeout: Duration::from_secs(60) }, || fx.do_save(wl, &dest, &src));
        let d = read_dest(&dest);
        let ok = match (&o, &d) {
            (Res::Ok, Dest::File(b)) => fx.is_complete_new(wl, b).and_then(|_| if !wl.is_cfb() && b.len() != fx.reference(wl).bytes.len() { Err(format!("size {} differs from the in-memory reference {} (saves are not in a steady state)", b.len(), fx.reference(wl).bytes.len())) } else { Ok(b.len() as u64) }),
            _ => Err(format!("{} / {:?}", o.text(), listing(&cd.d))),
        };
        cd.remove();
        match ok {
            Ok(n) => {
                p.size.insert(wl.name().into(), n);
            }
            Err(e) => {
                eprintln!("MACHINERY: C13 fault-free save of workload {} does not produce the complete new file: {}", wl.name(), e);
                std::process::exit(2);
            }
        }
    }
    // (2) write-call counts of the sink APIs
    for api in SINK_APIS {
        for chunk in SINK_CHUNKS {
            let mut s = FaultySink::new(chunk, u64::MAX, Mode::ErrNow);
            let o = run_guarded(|| sink_call(fx, api, &mut s));
            if o != Res::Ok {
                eprintln!("MACHINERY: C13 fault-free sink run {} fails: {}", api, o.text());
                std::process::exit(2);
            }
            p.sink_calls.insert(format!("{}/{}", api, chunk), s.calls);
        }
    }
    // (3) privilege drop probe (permission bits do not bind for root)
    {
        // the unprivileged child must still be able to reach the work directory
        let cd = CaseDir::create("plan-priv");
        std::fs::write(cd.aux.join("probe"), b"x").unwrap();
        let probe = cd.aux.join("probe");
        let o = run_forked(&ChildCfg { fsize: None, drop_priv: true, timeout: Duration::from_secs(10) }, || std::fs::read(&probe).map(|_| ()).map_err(|e| e.to_string()));
        cd.remove();
        p.drop_priv_ok = o == Res::Ok;
    }
    // (4) syscall census of the save windows
    st::census(tier, fx, &mut p);
    p
}

static PLAN: std::sync::OnceLock<Plan> = std::sync::OnceLock::new();

fn get_plan(tier: Tier, fx: &Fx) -> Plan {
    if let Some(p) = PLAN.get() {
        return p.clone();
    }
    let path = plan_path(tier);
    if is_worker() {
        if let Some(p) = std::fs::read_to_string(&path).ok().and_then(|t| serde_json::from_str::<Value>(&t).ok()).and_then(|v| Plan::from_json(&v)) {
            return p;
        }
    }
    let p = compute_plan(tier, fx);
    let _ = std::fs::write(&path, serde_json::to_string(&p.to_json()).unwrap());
    let _ = PLAN.set(p.clone());
    p
}

// ---------------------------------------------------------------------------------------------
// (a) failing sink

#[derive(Clone, Copy, PartialEq, Eq, Debug)]
pub enum Mode {
    ErrNow,
    ShortThenErr,
    Interrupted,
    Zero,
}
const MODES: [Mode; 4] = [Mode::ErrNow, Mode::ShortThenErr, Mode::Interrupted, Mode::Zero];
impl Mode {
    fn name(self) -> &'static str {
        match self {
            Mode::ErrNow => "enospc",
            Mode::ShortThenErr => "short1-then-enospc",
            Mode::Interrupted => "interrupted-once",
            Mode::Zero => "ok0",
        }
    }
}
const SINK_APIS: [&str; 5] = ["xlsx::write_writer", "xlsx::write_writer_light", "xlsx::write_writer/64k", "csv::write_writer/small", "csv::write_writer"];
/// bytes the healthy sink accepts per call (0 = everything): a sink that takes the data in pieces turns the
/// single `write_all` of the library into many write calls, so the failing call index is a real dimension
const SINK_CHUNKS: [usize; 3] = [0, 4096, 512];

pub struct FaultySink {
    pub data: Vec<u8>,
    pos: usize,
    chunk: usize,
    pub calls: u64,
    fail_at: u64,
    mode: Mode,
    /// an Err / Ok(0) was returned to the caller
    pub hard: bool,
    pub interrupted: bool,
}
impl FaultySink {
    fn new(chunk: usize, fail_at: u64, mode: Mode) -> FaultySink {
        FaultySink { data: vec![], pos: 0, chunk, calls: 0, fail_at, mode, hard: false, interrupted: false }
    }
    fn accept(&mut self, buf: &[u8], max: usize) -> usize {
        let n = buf.len().min(max);
        let end = self.pos + n;
        if self.data.len() < end {
            self.data.resize(end, 0);
        }
        self.data[self.pos..end].copy_from_slice(&buf[..n]);
        self.pos = end;
        n
    }
}
impl Write for FaultySink {
    fn write(&mut self, buf: &[u8]) -> io::Result<usize> {
        if buf.is_empty() {
            return Ok(0);
        }
        let idx = self.calls;
        self.calls += 1;
        let full = || io::Error::from_raw_os_error(libc::ENOSPC);
        match self.mode {
            Mode::ErrNow if idx >= self.fail_at => {
                self.hard = true;
                return Err(full());
            }
            Mode::ShortThenErr if idx == self.fail_at => return Ok(self.accept(buf, 1)),
            Mode::ShortThenErr if idx > self.fail_at => {
                self.hard = true;
                return Err(full());
            }
            Mode::Interrupted if idx == self.fail_at => {
                self.interrupted = true;
                return Err(io::Error::from(io::ErrorKind::Interrupted));
            }
            Mode::Zero if idx >= self.fail_at => {
                self.hard = true;
                return Ok(0);
            }
            _ => {}
        }
        let max = if self.chunk == 0 { usize::MAX } else { self.chunk };
        Ok(self.accept(buf, max))
    }
    fn flush(&mut self) -> io::Result<()> {
        Ok(())
    }
}
impl Seek for FaultySink {
    fn seek(&mut self, to: SeekFrom) -> io::Result<u64> {
        let n = match to {
            SeekFrom::Start(o) => o as i64,
            SeekFrom::End(o) => self.data.len() as i64 + o,
            SeekFrom::Current(o) => self.pos as i64 + o,
        };
        if n < 0 {
            return Err(io::Error::from(io::ErrorKind::InvalidInput));
        }
        self.pos = n as usize;
        Ok(n as u64)
    }
}

fn sink_wl(api: &str) -> Wl {
    match api {
        "xlsx::write_writer" => Wl::Xlsx,
        "xlsx::write_writer_light" => Wl::Light,
        "xlsx::write_writer/64k" => Wl::Xlsx64k,
        "csv::write_writer/small" => Wl::CsvSmall,
        _ => Wl::Csv,
    }
}
fn sink_call(fx: &Fx, api: &str, s: &mut FaultySink) -> Result<(), String> {
    use umya_spreadsheet::writer::{csv, xlsx};
    let wl = sink_wl(api);
    let r = match wl {
        Wl::Xlsx | Wl::Xlsx64k => xlsx::write_writer(fx.book(wl), s),
        Wl::Light => xlsx::write_writer_light(fx.book(wl), s),
        _ => csv::write_writer(fx.book(wl), s, &umya_spreadsheet::structs::CsvWriterOption::default()),
    };
    r.map_err(|e| format!("{:?}", e))
}

#[derive(Clone, Debug)]
struct SinkCase {
    api: &'static str,
    chunk: usize,
    mode: Mode,
    i: u64,
    n: u64,
}
struct SinkSpace {
    fx: Fx,
    cases: Vec<SinkCase>,
}
fn sink_cases(p: &Plan) -> Vec<SinkCase> {
    let mut v = vec![];
    for api in SINK_APIS {
        for chunk in SINK_CHUNKS {
            let n = *p.sink_calls.get(&format!("{}/{}", api, chunk)).unwrap_or(&0);
            for mode in MODES {
                for i in 0..=n {
                    v.push(SinkCase { api, chunk, mode, i, n });
                }
            }
        }
    }
    v
}
impl SinkSpace {
    fn pos(c: &SinkCase) -> &'static str {
        if c.i >= c.n {
            "call:beyond-last"
        } else if c.i == 0 {
            "call:first"
        } else if c.i + 1 == c.n {
            "call:last"
        } else {
            "call:middle"
        }
    }
}
impl Space for SinkSpace {
    fn len(&self) -> u64 {
        self.cases.len() as u64
    }
    fn describe(&self, i: u64) -> Value {
        let c = &self.cases[i as usize];
        json!({"injector":"sink","api": c.api, "sink_accepts_per_call": if c.chunk == 0 {json!("all")} else {json!(c.chunk)}, "mode": c.mode.name(), "fail_at_write_call": c.i, "write_calls_fault_free": c.n})
    }
    fn tags(&self, i: u64) -> Vec<String> {
        let c = &self.cases[i as usize];
        vec![format!("sink/{}/{}", c.api, c.mode.name()), "inj:sink".into(), format!("api:{}", c.api), format!("mode:{}", c.mode.name()), Self::pos(c).into()]
    }
    fn run(&self, i: u64, sink: &mut Sink) {
        let c = &self.cases[i as usize];
        let tags = self.tags(i);
        let case = self.describe(i);
        sink.evaluations += 1;
        let mut s = FaultySink::new(c.chunk, c.i, c.mode);
        let o = run_guarded(|| sink_call(&self.fx, c.api, &mut s));
        let wl = sink_wl(c.api);
        let fired = s.hard || s.interrupted || (c.mode == Mode::ShortThenErr && c.i < c.n);
        if fired {
            sink.obs(&format!("sink|{}|{}|{}|{}|{}|{}", c.api, c.chunk, c.mode.name(), o.kind(), s.data.len(), s.calls));
        }
        sink.count(&format!("sink:{}", o.kind()), 1);
        match &o {
            Res::Panic { file, msg } => push(sink, Finding { clause: "sink-error-returned", symptom: panic_symptom(file, msg), detail: format!("{} panicked on a failing caller-supplied writer instead of returning the error: {} ({})", c.api, msg, file) }, &tags, &case),
            Res::Ok => {
                if s.hard {
                    push(sink, Finding { clause: "sink-error-returned", symptom: "sink-error-swallowed".into(), detail: format!("{}: the writer returned an error / Ok(0) at call {} but the save returned Ok(())", c.api, c.i) }, &tags, &case);
                } else if let Err(e) = self.fx.is_complete_new(wl, &s.data) {
                    push(sink, Finding { clause: "sink-output-complete", symptom: "ok-but-output-incomplete".into(), detail: format!("{} returned Ok(()) (no hard fault delivered) but the sink holds an incomplete output: {}", c.api, e) }, &tags, &case);
                }
            }
            Res::Err(e) => {
                if !s.hard {
                    let sym = if s.interrupted { "interrupted-not-retried" } else { "spurious-error" };
                    push(sink, Finding { clause: "sink-error-returned", symptom: sym.into(), detail: format!("{} returned Err({}) although the writer never failed hard", c.api, e) }, &tags, &case);
                }
            }
            other => push(sink, Finding { clause: "harness", symptom: "machinery".into(), detail: other.text() }, &tags, &case),
        }
        // aftermath: whatever the faulted call left behind in the library (scratch buffers, caches), the NEXT save through
        // the same entry point into a healthy writer must produce the complete file
        if s.hard {
            let mut healthy = FaultySink::new(0, u64::MAX, Mode::ErrNow);
            let o2 = run_guarded(|| sink_call(&self.fx, c.api, &mut healthy));
            sink.evaluations += 1;
            match &o2 {
                Res::Ok => {
                    if let Err(e) = self.fx.is_complete_new(wl, &healthy.data) {
                        push(sink, Finding { clause: "sink-output-complete", symptom: "next-save-after-a-failed-one-incomplete".into(), detail: format!("{}: the healthy save that follows the failed one (writer failed at call {}) returned Ok(()) but its output is not the complete file: {}", c.api, c.i, e) }, &tags, &case);
                    }
                }
                other => push(sink, Finding { clause: "sink-output-complete", symptom: "next-save-after-a-failed-one-fails".into(), detail: format!("{}: the healthy save that follows the failed one: {}", c.api, other.text()) }, &tags, &case),
            }
        }
    }
}

// ---------------------------------------------------------------------------------------------
// (b) RLIMIT_FSIZE

struct RlimitSpace {
    fx: Fx,
    /// (workload, destination before, limits)
    groups: Vec<(Wl, Pre, Vec<u64>)>,
    sizes: BTreeMap<String, u64>,
}
fn boundary_limits(size: u64) -> Vec<u64> {
    let mut v: Vec<u64> = vec![0, 1, 2, 511, 512, 513, size.saturating_sub(2), size.saturating_sub(1), size, size + 1];
    let mut n = 4096;
    while n <= size + 4096 {
        v.extend([n - 1, n, n + 1]);
        n += 4096;
    }
    // the last BufWriter-buffer-full of the file is where a swallowed flush matters
    if size > BUF {
        v.extend([size - BUF - 1, size - BUF, size - BUF + 1]);
    }
    v.retain(|l| *l <= size + 1);
    v.sort();
    v.dedup();
    v
}
fn rlimit_every(tier: Tier, wl: Wl) -> Option<u64> {
    // Some(step): every step-th L plus the boundaries; None: boundaries only
    match (tier, wl) {
        (_, Wl::Xlsx) | (_, Wl::Light) | (_, Wl::CsvSmall) => Some(1),
        (Tier::Thorough, Wl::Xlsx64k) | (Tier::Thorough, Wl::Csv) => Some(1),
        (Tier::Thorough, _) => Some(THOROUGH_CFB_STEP),
        _ => None,
    }
}
/// encrypted saves cost ~100 ms each (3 x 100000 SHA-512 spins inside `encrypt`), so the thorough tier walks the
/// compound file in steps (plus all boundaries) instead of byte by byte; stated in bounds and caps_hit
const THOROUGH_CFB_STEP: u64 = 64;
fn rlimit_groups(tier: Tier, p: &Plan) -> Vec<(Wl, Pre, Vec<u64>)> {
    let mut g = vec![];
    for wl in WLS {
        let size = *p.size.get(wl.name()).unwrap_or(&0);
        let mut ls = boundary_limits(size);
        if let Some(step) = rlimit_every(tier, wl) {
            let mut l = 0;
            while l <= size {
                ls.push(l);
                l += step;
            }
            ls.sort();
            ls.dedup();
        }
        for pre in [Pre::Absent, Pre::Old] {
            g.push((wl, pre, ls.clone()));
        }
    }
    g
}
impl RlimitSpace {
    fn locate(&self, mut i: u64) -> (Wl, Pre, u64) {
        for (wl, pre, ls) in &self.groups {
            if i < ls.len() as u64 {
                return (*wl, *pre, ls[i as usize]);
            }
            i -= ls.len() as u64;
        }
        panic!("index out of range")
    }
    fn pos(size: u64, l: u64) -> &'static str {
        if l >= size {
            "limit:not-binding"
        } else if size - l < BUF {
            "limit:in-last-8k"
        } else {
            "limit:before-last-8k"
        }
    }
}
impl Space for RlimitSpace {
    fn len(&self) -> u64 {
        self.groups.iter().map(|g| g.2.len() as u64).sum()
    }
    fn describe(&self, i: u64) -> Value {
        let (wl, pre, l) = self.locate(i);
        json!({"injector":"rlimit_fsize","workload": wl.name(), "api": wl.api(), "destination_before": pre.name(), "limit_bytes": l, "fault_free_size": self.sizes[wl.name()]})
    }
    fn tags(&self, i: u64) -> Vec<String> {
        let (wl, pre, l) = self.locate(i);
        let pos = Self::pos(self.sizes[wl.name()], l);
        vec![format!("{}/rlimit/{}", wl.name(), pos), format!("wl:{}", wl.name()), "inj:rlimit".into(), pos.into(), format!("dest:{}", pre.name())]
    }
    fn run(&self, i: u64, sink: &mut Sink) {
        let (wl, pre, l) = self.locate(i);
        let size = self.sizes[wl.name()];
        let tags = self.tags(i);
        let case = self.describe(i);
        sink.evaluations += 1;
        let cd = CaseDir::create("rl");
        cd.prepare(&self.fx, wl, pre);
        let (dest, src) = (cd.dest(wl), cd.src());
        let o = run_forked(&ChildCfg { fsize: Some(l), drop_priv: false, timeout: Duration::from_secs(30) }, || self.fx.do_save(wl, &dest, &src));
        let d = read_dest(&dest);
        let ls = listing(&cd.d);
        cd.remove();
        let before = if pre == Pre::Old { Before::Old } else { Before::Absent };
        let (dclass, fs) = judge(&self.fx, wl, before, &o, &d, false);
        if l < size {
            sink.obs(&format!("rlimit|{}|{}|{}|{}|{:?}", wl.name(), pre.name(), o.kind(), dclass, ls));
        } else if o != Res::Ok {
            push(sink, Finding { clause: "control", symptom: "fails-without-fault".into(), detail: format!("limit {} >= size {} but {}", l, size, o.text()) }, &tags, &case);
        }
        sink.count(&format!("rlimit:{}:{}", o.kind(), dclass), 1);
        for mut f in fs {
            f.detail = format!("RLIMIT_FSIZE={} (fault-free size {}): {}; directory afterwards {:?}", l, size, f.detail, ls);
            push(sink, f, &tags, &case);
        }
    }
}

// ---------------------------------------------------------------------------------------------
// (e) unwritable / odd targets

const SCENARIOS: [&str; 14] = ["dest-is-symlink", "dest-is-hardlinked", "dest-is-symlink+write-fault", "dest-is-hardlinked+write-fault", "control", "stale-longer-temp-exists", "dir-readonly", "target-is-empty-directory", "target-is-nonempty-directory", "no-extension", "non-utf8-extension", "parent-missing", "temp-name-is-directory", "dir-readonly-temp-exists"];
struct TargetSpace {
    fx: Fx,
    drop_priv_ok: bool,
}
impl TargetSpace {
    fn locate(&self, i: u64) -> (Wl, &'static str, Pre) {
        let per = SCENARIOS.len() as u64 * 2;
        let wl = WLS[(i / per) as usize];
        let r = i % per;
        (wl, SCENARIOS[(r / 2) as usize], if r % 2 == 0 { Pre::Absent } else { Pre::Old })
    }
    fn applicable(sc: &str, pre: Pre) -> bool {
        // a pre-existing FILE at the destination contradicts a directory at the destination / a missing parent
        // a link needs something to point at
        if sc.starts_with("dest-is-") {
            return pre == Pre::Old;
        }
        !(pre == Pre::Old && matches!(sc, "target-is-empty-directory" | "target-is-nonempty-directory" | "parent-missing"))
    }
}
impl Space for TargetSpace {
    fn len(&self) -> u64 {
        (WLS.len() * SCENARIOS.len() * 2) as u64
    }
    fn describe(&self, i: u64) -> Value {
        let (wl, sc, pre) = self.locate(i);
        json!({"injector":"target","workload": wl.name(), "api": wl.api(), "scenario": sc, "destination_before": pre.name(), "applicable": Self::applicable(sc, pre)})
    }
    fn tags(&self, i: u64) -> Vec<String> {
        let (wl, sc, pre) = self.locate(i);
        vec![format!("{}/target/{}", wl.name(), sc), format!("wl:{}", wl.name()), "inj:target".into(), format!("target:{}", sc), format!("dest:{}", pre.name())]
    }
    fn run(&self, i: u64, sink: &mut Sink) {
        use std::os::unix::ffi::OsStrExt;
        use std::os::unix::fs::PermissionsExt;
        let (wl, sc, pre) = self.locate(i);
        if !Self::applicable(sc, pre) {
            sink.count("targets:not-applicable", 1);
            return;
        }
        let readonly = sc.starts_with("dir-readonly");
        if readonly && !self.drop_priv_ok {
            sink.count("targets:skipped-no-privilege-drop", 1);
            return;
        }
        let tags = self.tags(i);
        let case = self.describe(i);
        sink.evaluations += 1;
        let cd = CaseDir::create("tg");
        let mut dest = cd.dest(wl);
        let mut before = if pre == Pre::Old { Before::Old } else { Before::Absent };
        match sc {
            "no-extension" => dest = cd.d.join("book"),
            "non-utf8-extension" => dest = cd.d.join(std::ffi::OsStr::from_bytes(b"book.x\xffl")),
            "parent-missing" => dest = cd.d.join("no-such-dir").join(format!("book.{}", wl.ext())),
            _ => {}
        }
        if wl == Wl::SetPw {
            std::fs::write(cd.src(), &self.fx.src_xlsx).unwrap();
        }
        let linked = sc.starts_with("dest-is-");
        let other_name = cd.d.join(format!("the-same-file-under-another-name.{}", wl.ext()));
        if linked {
            // the old file lives under another name; the destination is a symbolic link to it / a second hard link
            std::fs::write(&other_name, self.fx.old_bytes(wl)).unwrap();
            if sc.contains("symlink") {
                std::os::unix::fs::symlink(&other_name, &dest).unwrap();
            } else {
                std::fs::hard_link(&other_name, &dest).unwrap();
            }
        } else if pre == Pre::Old {
            std::fs::write(&dest, self.fx.old_bytes(wl)).unwrap();
        }
        let mut tmp_name = dest.clone().into_os_string();
        tmp_name.push("tmp");
        let tmp = PathBuf::from(tmp_name);
        match sc {
            "target-is-empty-directory" => {
                std::fs::create_dir(&dest).unwrap();
                before = Before::Directory;
            }
            "target-is-nonempty-directory" => {
                std::fs::create_dir(&dest).unwrap();
                std::fs::write(dest.join("inner.txt"), b"x").unwrap();
                before = Before::Directory;
            }
            "temp-name-is-directory" => std::fs::create_dir(&tmp).unwrap(),
            "dir-readonly-temp-exists" => std::fs::write(&tmp, b"stale temp file of somebody else").unwrap(),
            // leftover of an earlier, killed save: longer than anything this save writes
            "stale-longer-temp-exists" => std::fs::write(&tmp, vec![b'Z'; 600_000]).unwrap(),
            _ => {}
        }
        if readonly {
            // everything root-owned, directory r-x for everybody: user 65534 can neither create nor rename here
            std::fs::set_permissions(&cd.d, std::fs::Permissions::from_mode(0o555)).unwrap();
            let _ = std::fs::set_permissions(&cd.aux, std::fs::Permissions::from_mode(0o755));
        } else {
            // the child may run as root or not; nothing to do
        }
        let src = cd.src();
        // "+write-fault": no file may grow beyond 8 bytes, so every write of the save fails (the source of set_password
        // is only read)
        let fsize = if sc.ends_with("+write-fault") { Some(8) } else { None };
        let o = run_forked(&ChildCfg { fsize, drop_priv: readonly, timeout: Duration::from_secs(30) }, || self.fx.do_save(wl, &dest, &src));
        let d = read_dest(&dest);
        let other_after = if linked { Some(std::fs::read(&other_name).unwrap_or_default()) } else { None };
        let ls = listing(&cd.d);
        let inner_ok = sc != "target-is-nonempty-directory" || dest.join("inner.txt").exists();
        cd.make_writable();
        cd.remove();
        let (dclass, mut fs) = judge(&self.fx, wl, before, &o, &d, false);
        sink.obs(&format!("target|{}|{}|{}|{}|{}|{:?}", wl.name(), sc, pre.name(), o.kind(), dclass, ls));
        sink.count(&format!("targets:{}:{}", o.kind(), dclass), 1);
        if let Some(bytes) = other_after {
            // the old content is reachable under its other name: a failed save must leave it alone; a successful one may
            // either replace the destination name (rename) or write through it, but never leave a fragment behind
            let old = self.fx.old_bytes(wl);
            let ok = bytes == old || (o == Res::Ok && self.fx.is_complete_new(wl, &bytes).is_ok());
            if !ok {
                fs.push(Finding { clause: "destination-intact", symptom: if o == Res::Ok { "ok-but-linked-file-damaged".into() } else { "failed-and-linked-file-damaged".into() }, detail: format!("the file the destination was linked to now has {} bytes (old file: {} bytes) and is neither the old nor a complete new file", bytes.len(), old.len()) });
            }
        }
        if sc.ends_with("+write-fault") && o == Res::Ok {
            fs.push(Finding { clause: "harness", symptom: "fault-did-not-bind".into(), detail: "the 8-byte file size limit did not make the save fail".into() });
        }
        if !inner_ok {
            fs.push(Finding { clause: "destination-intact", symptom: "directory-target-emptied".into(), detail: "the directory at the destination lost its content".into() });
        }
        // scenarios in which the save cannot legitimately succeed / must succeed
        let must_fail = readonly || matches!(sc, "target-is-empty-directory" | "target-is-nonempty-directory" | "parent-missing");
        if must_fail && o == Res::Ok && dclass == "new" {
            fs.push(Finding { clause: "harness", symptom: "fault-did-not-bind".into(), detail: format!("scenario {} did not make the target unwritable", sc) });
        }
        if (sc == "control" || sc == "stale-longer-temp-exists" || sc == "dest-is-symlink" || sc == "dest-is-hardlinked") && (o != Res::Ok || dclass != "new") && fs.is_empty() {
            fs.push(Finding { clause: "control", symptom: "fails-without-fault".into(), detail: format!("healthy target but {} / destination {}", o.text(), dclass) });
        }
        for mut f in fs {
            f.detail = format!("target scenario {}: {}; directory afterwards {:?}", sc, f.detail, ls);
            push(sink, f, &tags, &case);
        }
    }
}


// ---------------------------------------------------------------------------------------------
// (f) two saves that overlap in time, to DIFFERENT destinations in the same directory (same stem, other extension)
//
// Save A is suspended at a hook point of the package writer (entered after A has created its temporary file, left
// before A writes to it); save B runs to completion right there, on the same thread; then A continues. Every save that
// reports success must have left its complete new file, every other destination its old content - whatever the other
// save did in between.

const OV_A: [Wl; 4] = [Wl::Xlsx, Wl::Light, Wl::Pw, Wl::PwLight];
const OV_B: [(Wl, &str); 4] = [(Wl::CsvSmall, "csv"), (Wl::Light, "xlsm"), (Wl::Xlsx, "tmp"), (Wl::Pw, "xlsb")];
/// 6/7: entry/exit of the package writer (for the plain savers inside the create-to-rename window); 13/14: inside
/// helper::crypt::encrypt (compound file created / completely written) - passed by the password savers only
const OV_SITES: [(u32, &str); 4] = [(6, "A-has-created-its-temp-file"), (7, "A-is-about-to-write"), (13, "A-has-created-its-compound-file"), (14, "A-has-written-its-compound-file")];
fn ov_cases() -> &'static Vec<(Wl, (u32, &'static str), (Wl, &'static str), Pre)> {
    static C: std::sync::OnceLock<Vec<(Wl, (u32, &'static str), (Wl, &'static str), Pre)>> = std::sync::OnceLock::new();
    C.get_or_init(|| {
        let mut v = vec![];
        for a in OV_A {
            for site in OV_SITES {
                if site.0 >= 13 && !matches!(a, Wl::Pw | Wl::PwLight) {
                    continue;
                }
                for b in OV_B {
                    for pre in [Pre::Old, Pre::Absent] {
                        v.push((a, site, b, pre));
                    }
                }
            }
        }
        v
    })
}

struct OvCtx {
    site: u32,
    fired: bool,
    wl_b: Wl,
    dest_b: PathBuf,
    src: PathBuf,
    res_b: Option<Res>,
}
static OV_FX: std::sync::OnceLock<Fx> = std::sync::OnceLock::new();
static OV: std::sync::Mutex<Option<OvCtx>> = std::sync::Mutex::new(None);
fn ov_hook(site: u32) {
    // take what is needed and release the lock: save B passes the same hook points itself
    let job = {
        let mut g = OV.lock().unwrap();
        match g.as_mut() {
            Some(c) if c.site == site && !c.fired => {
                c.fired = true;
                Some((c.wl_b, c.dest_b.clone(), c.src.clone()))
            }
            _ => None,
        }
    };
    if let Some((wl_b, dest_b, src)) = job {
        let fx = OV_FX.get().expect("fixture");
        let r = run_guarded(|| fx.do_save(wl_b, &dest_b, &src));
        if let Some(c) = OV.lock().unwrap().as_mut() {
            c.res_b = Some(r);
        }
    }
}

struct OverlapSpace;
impl OverlapSpace {
    fn locate(i: u64) -> (Wl, (u32, &'static str), (Wl, &'static str), Pre) {
        ov_cases()[i as usize]
    }
}
impl Space for OverlapSpace {
    fn len(&self) -> u64 {
        ov_cases().len() as u64
    }
    fn describe(&self, i: u64) -> Value {
        let (a, site, (b, ext_b), pre) = Self::locate(i);
        json!({"injector":"overlap","save_A": a.name(), "A_destination": format!("book.{}", a.ext()), "suspended_at": site.1, "save_B": b.name(), "B_destination": format!("book.{}", ext_b), "destinations_before": pre.name()})
    }
    fn tags(&self, i: u64) -> Vec<String> {
        let (a, site, (b, ext_b), pre) = Self::locate(i);
        vec![format!("{}/overlap/{}", a.name(), site.1), format!("wl:{}", a.name()), "inj:overlap".into(), format!("other:{}->.{}", b.name(), ext_b), format!("dest:{}", pre.name())]
    }
    fn run(&self, i: u64, sink: &mut Sink) {
        let (a, site, (b, ext_b), pre) = Self::locate(i);
        let fx = OV_FX.get_or_init(Fx::new);
        let tags = self.tags(i);
        let case = self.describe(i);
        sink.evaluations += 1;
        let cd = CaseDir::create("ov");
        let dest_a = cd.dest(a);
        let dest_b = cd.d.join(format!("book.{}", ext_b));
        let before = if pre == Pre::Old { Before::Old } else { Before::Absent };
        if pre == Pre::Old {
            std::fs::write(&dest_a, fx.old_bytes(a)).unwrap();
            std::fs::write(&dest_b, fx.old_bytes(b)).unwrap();
        }
        let src = cd.src();
        *OV.lock().unwrap() = Some(OvCtx { site: site.0, fired: false, wl_b: b, dest_b: dest_b.clone(), src: src.clone(), res_b: None });
        umya_spreadsheet::verif_hook::install(ov_hook);
        let res_a = run_guarded(|| fx.do_save(a, &dest_a, &src));
        umya_spreadsheet::verif_hook::uninstall();
        let ctx = OV.lock().unwrap().take().unwrap();
        let (da, db) = (read_dest(&dest_a), read_dest(&dest_b));
        let ls = listing(&cd.d);
        cd.remove();
        let res_b = match ctx.res_b {
            Some(r) => r,
            None => {
                push(sink, Finding { clause: "harness", symptom: "fault-did-not-bind".into(), detail: format!("save A never reached the hook point {}", site.1) }, &tags, &case);
                return;
            }
        };
        let (ca, fa) = judge(fx, a, before, &res_a, &da, false);
        let (cb, fb) = judge(fx, b, before, &res_b, &db, false);
        sink.obs(&format!("overlap|{}|{}|{}|{}|{}|{}|{}|{:?}", a.name(), site.1, b.name(), res_a.kind(), ca, res_b.kind(), cb, ls));
        sink.count(&format!("overlap:A:{}:{}", res_a.kind(), ca), 1);
        sink.count(&format!("overlap:B:{}:{}", res_b.kind(), cb), 1);
        // nothing is injected here: a save that fails has been broken by the other one
        for (who, r) in [("A", &res_a), ("B", &res_b)] {
            if r.kind() != "ok" {
                push(sink, Finding { clause: "control", symptom: format!("overlap-{}:fails-without-fault", who), detail: format!("save {} of two overlapping saves (A = {} -> book.{}, suspended at {}; B = {} -> book.{} run to completion there) returned {} although nothing was injected; directory afterwards {:?}", who, a.name(), a.ext(), site.1, b.name(), ext_b, r.text(), ls) }, &tags, &case);
            }
        }
        for (who, fs) in [("A", fa), ("B", fb)] {
            for mut f in fs {
                f.detail = format!("save {} of two overlapping saves (A = {} -> book.{}, suspended at {}; B = {} -> book.{} run to completion there): {}; A returned {}, B returned {}; directory afterwards {:?}", who, a.name(), a.ext(), site.1, b.name(), ext_b, f.detail, res_a.text(), res_b.text(), ls);
                f.symptom = format!("overlap-{}:{}", who, f.symptom);
                push(sink, f, &tags, &case);
            }
        }
    }
}

// ---------------------------------------------------------------------------------------------
pub fn space(tier: Tier, id: &str) -> Option<Box<dyn Space>> {
    if let Some(rest) = id.strip_prefix("child:") {
        return st::child_space(rest);
    }
    if id == "overlap" {
        return Some(Box::new(OverlapSpace));
    }
    let fx = Fx::new();
    let p = get_plan(tier, &fx);
    match id {
        "sink" => Some(Box::new(SinkSpace { cases: sink_cases(&p), fx })),
        "rlimit" => Some(Box::new(RlimitSpace { groups: rlimit_groups(tier, &p), sizes: p.size.clone(), fx })),
        "targets" => Some(Box::new(TargetSpace { fx, drop_priv_ok: p.drop_priv_ok })),
        "strace-err" => Some(Box::new(st::StraceSpace::new(tier, fx, &p, false))),
        "strace-kill" => Some(Box::new(st::StraceSpace::new(tier, fx, &p, true))),
        _ => None,
    }
}

fn replay(tier: Tier, case: &Value) -> Vec<Violation> {
    let v = replay_e1(space(tier, case["_space"].as_str().unwrap_or("")), case);
    purge_scratch();
    v
}

fn run(ctx: &Ctx) -> i32 {
    let fx = Fx::new();
    // always re-measure in the parent; the workers load the stored plan
    let p = compute_plan(ctx.tier, &fx);
    let _ = PLAN.set(p.clone());
    if std::env::var("C13_DUMP_PLAN").is_ok() {
        println!("{}", serde_json::to_string_pretty(&p.to_json()).unwrap());
        return 0;
    }
    if let Err(e) = std::fs::write(plan_path(ctx.tier), serde_json::to_string(&p.to_json()).unwrap()) {
        eprintln!("MACHINERY: cannot store the C13 plan: {}", e);
        return 2;
    }
    let thorough = ctx.tier == Tier::Thorough;
    let ids = ["sink", "rlimit", "targets", "overlap", "strace-err", "strace-kill"];
    let mut spaces: Vec<(&'static str, Box<dyn Space>)> = vec![];
    for id in ids {
        let sp = space(ctx.tier, id).unwrap();
        if sp.len() > 0 {
            spaces.push((id, sp));
        }
    }
    let mut caps = vec![];
    let mut assumptions = vec![
        "the complete new file is defined by the library's own in-memory writer on a healthy sink (byte-identical, or every zip member readable and the same workbook projection after read_reader); encrypted outputs are opened by an independent agile decryptor (HMAC verified) and the decrypted package is compared the same way".to_string(),
        "observer / kill granularity is the system-call boundary (strace stops the process on entry of the k-th call); torn writes inside one write call and power-loss durability are not explored".to_string(),
        "temporary-file leftovers are not violations (the statement does not forbid them)".to_string(),
        "strace error injection replaces the system call (it is not executed); read-only opens and lseek are not injected".to_string(),
    ];
    if !p.strace_ok {
        caps.push(format!("strace injection unavailable in this environment ({}): syscall-level error and SIGKILL enumeration skipped", p.strace_note));
    }
    if !p.drop_priv_ok {
        caps.push("cannot switch to an unprivileged uid: read-only-directory scenarios skipped (permission bits do not bind for root)".to_string());
    } else {
        assumptions.push("read-only-directory scenarios run the save as uid/gid 65534 in the forked child because permission bits do not bind for root".to_string());
    }
    if p.strace_ok {
        caps.push("encrypted workloads issue ~6200 system calls per save and every traced run costs ~0.3 s: syscall-level points are taken at the strides stated in bounds.strace (all other workloads: every call)".to_string());
    }
    if thorough {
        caps.push(format!("encrypted workloads under RLIMIT_FSIZE: every {}th byte limit plus all boundary values (each encrypted save costs ~0.1 s)", THOROUGH_CFB_STEP));
    }
    let windows: BTreeMap<String, Vec<String>> = p.windows.iter().map(|(k, v)| (k.clone(), v.iter().map(|s| format!("{}#{}", s.name, s.ordinal)).collect())).collect();
    let code = run_e1(
        ctx,
        E1Spec {
            spaces,
            cfg: PoolCfg { chunk: 8, case_timeout: Duration::from_secs(120), ..Default::default() },
            level: "fault_enumeration",
            rule: "six injectors, each enumerated completely over its index: (overlap) two path saves to DIFFERENT destinations of the same directory and stem (book.xlsx with book.csv / book.xlsm / book.tmp): save A (4 package-writer APIs) is suspended at each of the 2 hook points it passes between creating its temporary file and writing to it, save B (3 workloads) runs to completion there, A continues; both results are judged by the statement's oracle, destinations absent/old; (sink) every write-call index 0..=N of a fault-free run (N measured per API and per accepted-bytes-per-call) x 4 failure modes, each faulted call followed by a healthy save through the same entry point whose output must be complete; (rlimit) path save in a forked child under RLIMIT_FSIZE=L with SIGXFSZ ignored for every L in 0..=size (small workloads; big ones: see bounds) x destination absent/old; (targets) 10 target scenarios x 8 workloads x destination absent/old; (strace-err) errno injected at the k-th call of every openat(create)/write/pwrite64/rename/close/fsync/ftruncate of the save window of a traced child (window = between two marker openat calls, ordinals taken from a fault-free census run), plus pairs (write k fails AND every unlink fails); (strace-kill) SIGKILL on entry of every system call of the window and of the end marker. Oracle: Err, or Ok with destination == complete new file; a pre-existing destination is byte-identical old or complete new; no panic. distinct_nontrivial = distinct (workload, fault, outcome kind, destination class, directory listing with sizes) observations among the cases whose fault actually fired".into(),
            alphabets: json!({"workloads": WLS.iter().map(|w| w.name()).collect::<Vec<_>>(), "destination_before": ["absent", "old"], "sink_apis": SINK_APIS, "sink_modes": MODES.iter().map(|m| m.name()).collect::<Vec<_>>(), "sink_accepts_per_call": SINK_CHUNKS, "target_scenarios": SCENARIOS, "strace_errors": st::error_menu_json(), "fault_free_sizes": p.size, "sink_write_calls": p.sink_calls, "save_window_syscalls": windows}),
            bounds: json!({"rlimit": if thorough {format!("every L in 0..=size for xlsx-write, xlsx-write-light, xlsx-write-64k, csv-small, csv; every {}th L + boundaries for the three encrypted workloads", THOROUGH_CFB_STEP)} else {"every L in 0..=size for xlsx-write, xlsx-write-light, csv-small; boundary L (0,1,2,511..513,n*4096-1..+1,size-8192-1..+1,size-2..size+1) for xlsx-write-64k, csv and the three encrypted workloads".to_string()}, "strace": st::bounds_json(ctx.tier)}),
            exhaustive: caps.is_empty(),
            caps_hit: caps.clone(),
            assumptions,
            min_distinct: 50,
        },
    );
    purge_scratch();
    code
}

#[allow(dead_code)]
fn _unused(_: &Path) {}
