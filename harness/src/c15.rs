//! C15 — sheet / workbook / revisions protection passwords are stored as an ECMA-376 salted, spun hash that
//! verifies for the same password and for no other; fresh salt per call; no clear password and no legacy hash
//! attribute in the model or in the saved file; all of it survives save and reload.
use crate::c14::util::*;
use crate::c14::zip_parts;
use crate::common::*;
use crate::e1::*;
use crate::pool::*;
use base64::{engine::general_purpose::STANDARD, Engine as _};
use quick_xml::events::Event;
use quick_xml::Reader;
use serde_json::{json, Value};
use std::collections::HashMap;
use umya_spreadsheet::Spreadsheet;

pub fn entry() -> crate::Entry {
    crate::Entry { id: "C15", run, space, replay }
}

const PROP: &str = "C15";
/// a legacy 16-bit hash as an older producer would have stored it
const LEGACY: &str = "CC1A";

#[derive(Clone, Copy, PartialEq, Eq, Debug)]
enum Kind {
    Sheet,
    Workbook,
    Revisions,
}
impl Kind {
    fn name(&self) -> &'static str {
        match self {
            Kind::Sheet => "sheet",
            Kind::Workbook => "workbook",
            Kind::Revisions => "revisions",
        }
    }
    fn part(&self) -> &'static str {
        match self {
            Kind::Sheet => "xl/worksheets/sheet1.xml",
            _ => "xl/workbook.xml",
        }
    }
    fn element(&self) -> &'static str {
        match self {
            Kind::Sheet => "sheetProtection",
            _ => "workbookProtection",
        }
    }
    /// attribute names: algorithm, salt, spin, hash, legacy
    fn attrs(&self) -> [&'static str; 5] {
        match self {
            Kind::Sheet => ["algorithmName", "saltValue", "spinCount", "hashValue", "password"],
            Kind::Workbook => ["workbookAlgorithmName", "workbookSaltValue", "workbookSpinCount", "workbookHashValue", "workbookPassword"],
            Kind::Revisions => ["revisionsAlgorithmName", "revisionsSaltValue", "revisionsSpinCount", "revisionsHashValue", "revisionsPassword"],
        }
    }
}

#[derive(Clone, Debug, PartialEq, Eq)]
struct Obs {
    alg: String,
    salt: String,
    spin: u32,
    hash: String,
    raw: String,
}

fn observe(book: &Spreadsheet, kind: Kind) -> Option<Obs> {
    match kind {
        Kind::Sheet => book.get_sheet(&0)?.get_sheet_protection().map(|p| Obs {
            alg: p.get_algorithm_name().to_string(),
            salt: p.get_salt_value().to_string(),
            spin: *p.get_spin_count(),
            hash: p.get_hash_value().to_string(),
            raw: p.get_password_raw().to_string(),
        }),
        Kind::Workbook => book.get_workbook_protection().map(|p| Obs {
            alg: p.get_workbook_algorithm_name().to_string(),
            salt: p.get_workbook_salt_value().to_string(),
            spin: *p.get_workbook_spin_count(),
            hash: p.get_workbook_hash_value().to_string(),
            raw: p.get_workbook_password_raw().to_string(),
        }),
        Kind::Revisions => book.get_workbook_protection().map(|p| Obs {
            alg: p.get_revisions_algorithm_name().to_string(),
            salt: p.get_revisions_salt_value().to_string(),
            spin: *p.get_revisions_spin_count(),
            hash: p.get_revisions_hash_value().to_string(),
            raw: p.get_revisions_password_raw().to_string(),
        }),
    }
}

/// What an element may already carry when a password is set: the legacy 16-bit hash AND a verifier written by another
/// producer with other parameters (SHA-256, 1000 spins) - all of it must be replaced consistently.
fn preset_legacy(book: &mut Spreadsheet, kind: Kind) {
    const OLD_SALT: &str = "b2xkIHNhbHQgb2xkIHNhbHQ=";
    const OLD_HASH: &str = "b2xkIGhhc2ggb2xkIGhhc2ggb2xkIGhhc2ggb2xkIGhhc2g=";
    match kind {
        Kind::Sheet => {
            let p = book.get_sheet_mut(&0).expect("sheet 0").get_sheet_protection_mut();
            p.set_password_raw(LEGACY);
            p.set_algorithm_name("SHA-256");
            p.set_spin_count(1000);
            p.set_salt_value(OLD_SALT);
            p.set_hash_value(OLD_HASH);
        }
        Kind::Workbook => {
            let p = book.get_workbook_protection_mut();
            p.set_workbook_password_raw(LEGACY);
            p.set_workbook_algorithm_name("SHA-256");
            p.set_workbook_spin_count(1000);
            p.set_workbook_salt_value(OLD_SALT);
            p.set_workbook_hash_value(OLD_HASH);
        }
        Kind::Revisions => {
            let p = book.get_workbook_protection_mut();
            p.set_revisions_password_raw(LEGACY);
            p.set_revisions_algorithm_name("SHA-256");
            p.set_revisions_spin_count(1000);
            p.set_revisions_salt_value(OLD_SALT);
            p.set_revisions_hash_value(OLD_HASH);
        }
    }
}

fn set_password_by_replacing(book: &mut Spreadsheet, kind: Kind, pw: &str) {
    match kind {
        Kind::Sheet => {
            let mut p = umya_spreadsheet::SheetProtection::default();
            p.set_sheet(true);
            p.set_password(pw);
            book.get_sheet_mut(&0).expect("sheet 0").set_sheet_protection(p);
        }
        Kind::Workbook => {
            let mut p = umya_spreadsheet::WorkbookProtection::default();
            p.set_lock_structure(true);
            p.set_workbook_password(pw);
            book.set_workbook_protection(p);
        }
        Kind::Revisions => {
            let mut p = umya_spreadsheet::WorkbookProtection::default();
            p.set_lock_revision(true);
            p.set_revisions_password(pw);
            book.set_workbook_protection(p);
        }
    }
}

fn set_password(book: &mut Spreadsheet, kind: Kind, pw: &str) {
    match kind {
        Kind::Sheet => {
            book.get_sheet_mut(&0).expect("sheet 0").get_sheet_protection_mut().set_password(pw);
        }
        Kind::Workbook => {
            book.get_workbook_protection_mut().set_workbook_password(pw);
        }
        Kind::Revisions => {
            book.get_workbook_protection_mut().set_revisions_password(pw);
        }
    }
}

#[derive(Clone, Copy, PartialEq, Eq, Debug)]
enum Host {
    NewFile,
    Corpus(&'static str),
}

#[derive(Clone, Debug)]
struct Case {
    /// one assignment, or three (one per kind, different passwords)
    assign: Vec<(Kind, Pw)>,
    legacy_preset: bool,
    light: bool,
    host: Host,
    /// the object already carries a verifier for PREVIOUS_PW (set through the _mut accessor); the password of the case is
    /// then set on a SEPARATE protection object that replaces it (Worksheet::set_sheet_protection /
    /// Spreadsheet::set_workbook_protection)
    replace: bool,
}
const PREVIOUS_PW: &str = "the previous secret";

impl Case {
    fn tags(&self) -> Vec<String> {
        let mut t: Vec<String> = vec![];
        if self.assign.len() > 1 {
            t.push("kind-all-three".into());
        } else {
            match self.assign[0].0 {
                Kind::Sheet => {}
                Kind::Workbook => t.push("kind-workbook".into()),
                Kind::Revisions => t.push("kind-revisions".into()),
            }
        }
        for (_, p) in &self.assign {
            if let Some(x) = p.tag {
                if !t.iter().any(|y| y == x) {
                    t.push(x.into());
                }
            }
        }
        if self.legacy_preset {
            t.push("legacy-preset".into());
        }
        if self.replace {
            t.push("object-replaced".into());
        }
        if self.light {
            t.push("writer-light".into());
        }
        if let Host::Corpus(_) = self.host {
            t.push("host-corpus".into());
        }
        if t.is_empty() {
            t.push("baseline".into());
        }
        t
    }
    fn json(&self) -> Value {
        json!({
            "set": self.assign.iter().map(|(k, p)| json!({"kind": k.name(), "password": p.text, "password_utf16_units": p.text.encode_utf16().count()})).collect::<Vec<_>>(),
            "legacy_raw_hash_preset": self.legacy_preset,
            "how": if self.replace { "the object first gets a verifier for another password through the _mut accessor; the password of the case is set on a separate protection object installed with set_sheet_protection / set_workbook_protection" } else { "through the _mut accessor" },
            "writer": if self.light { "write_writer_light" } else { "write_writer" },
            "host": match self.host { Host::NewFile => "new_file()".to_string(), Host::Corpus(f) => format!("tests/test_files/{}", f) },
        })
    }
}

fn passwords(tier: Tier) -> Vec<Pw> {
    let mut v = base_passwords();
    v.push(Pw { text: "0123456789".repeat(10), tag: Some("pw-100chars") });
    if tier == Tier::Thorough {
        v.extend(extra_passwords().into_iter().filter(|p| p.tag != Some("pw-100chars")));
    }
    v
}

const KINDS: [Kind; 3] = [Kind::Sheet, Kind::Workbook, Kind::Revisions];
const CORPUS_HOSTS: [&str; 2] = ["aaa.xlsx", "book_lock.xlsx"];

fn cases(tier: Tier) -> Vec<Case> {
    let mut v = vec![];
    let pws = passwords(tier);
    for light in [false, true] {
        for legacy_preset in [false, true] {
            for pw in &pws {
                for k in KINDS {
                    v.push(Case { assign: vec![(k, pw.clone())], legacy_preset, light, host: Host::NewFile, replace: false });
                }
            }
        }
    }
    // all three kinds on one workbook, three different passwords (every rotation of each triple)
    let base = base_passwords();
    let by = |s: &str| base.iter().find(|p| p.text == s).cloned().unwrap();
    let mut triples = vec![[by("password"), by("密码"), by("🔑🔑")]];
    if tier == Tier::Thorough {
        triples.push([by(""), by("a"), by("pässwörd")]);
    }
    for t in &triples {
        for rot in 0..3 {
            for light in [false, true] {
                if tier == Tier::Quick && (rot > 0 && light) {
                    continue;
                }
                v.push(Case { assign: (0..3).map(|j| (KINDS[j], t[(j + rot) % 3].clone())).collect(), legacy_preset: rot == 1, light, host: Host::NewFile, replace: false });
            }
        }
    }
    // a protection object with a password replaces one that already had another password
    for (n, pw) in [by("password"), by("🔑🔑")].into_iter().enumerate() {
        for k in KINDS {
            v.push(Case { assign: vec![(k, pw.clone())], legacy_preset: false, light: n == 1, host: Host::NewFile, replace: true });
        }
    }
    // real workbooks as hosts
    let host_pws: Vec<Pw> = if tier == Tier::Thorough { base_passwords() } else { vec![by("password"), by("🔑🔑")] };
    for h in CORPUS_HOSTS {
        for pw in &host_pws {
            for k in KINDS {
                v.push(Case { assign: vec![(k, pw.clone())], legacy_preset: false, light: false, host: Host::Corpus(h), replace: false });
            }
        }
    }
    v
}

fn guarded<T, F: FnOnce() -> T>(f: F) -> Result<T, String> {
    std::panic::catch_unwind(std::panic::AssertUnwindSafe(f)).map_err(|e| panic_msg(&e))
}

fn host_book(h: Host) -> Result<Spreadsheet, String> {
    match h {
        Host::NewFile => Ok(umya_spreadsheet::new_file()),
        Host::Corpus(f) => {
            let p = format!("{}/tests/test_files/{}", repo_root(), f);
            let bytes = std::fs::read(&p).map_err(|e| format!("{}: {}", p, e))?;
            crate::dump::load_bytes(&bytes, true)
        }
    }
}

/// attributes of the first element with the given local name
fn element_attrs(xml: &[u8], local: &str) -> Result<Option<HashMap<String, String>>, String> {
    let mut r = Reader::from_reader(xml);
    let mut buf = Vec::new();
    loop {
        match r.read_event_into(&mut buf) {
            Ok(Event::Start(ref e)) | Ok(Event::Empty(ref e)) => {
                let q = String::from_utf8_lossy(e.name().as_ref()).to_string();
                let l = q.rsplit(':').next().unwrap_or("").to_string();
                if l == local {
                    let mut m = HashMap::new();
                    for a in e.attributes() {
                        let a = a.map_err(|e| e.to_string())?;
                        m.insert(String::from_utf8_lossy(a.key.as_ref()).to_string(), a.unescape_value().map_err(|e| e.to_string())?.to_string());
                    }
                    return Ok(Some(m));
                }
            }
            Ok(Event::Eof) => return Ok(None),
            Err(e) => return Err(e.to_string()),
            _ => {}
        }
        buf.clear();
    }
}

fn xml_escape(s: &str) -> String {
    s.replace('&', "&amp;").replace('<', "&lt;").replace('>', "&gt;").replace('"', "&quot;").replace('\'', "&apos;")
}

enum Verdict {
    Verifies,
    Fails(&'static str),
    Malformed(&'static str, String),
}

/// ECMA-376 verification of `pw` against a stored (algorithm, salt, spin, hash).  `diagnose` = on mismatch try the
/// known wrong constructions to name the symptom.
fn verify(o: &Obs, pw: &str, diagnose: bool) -> Verdict {
    let alg = match HashAlg::from_ooxml(&o.alg) {
        Some(a) => a,
        None => return Verdict::Malformed("algorithm-name-not-sha2", format!("algorithmName {:?} (this oracle implements SHA-256/384/512; the library is documented to use SHA-512)", o.alg)),
    };
    let salt = match STANDARD.decode(&o.salt) {
        Ok(s) => s,
        Err(_) => return Verdict::Malformed("salt-not-base64", format!("saltValue {:?}", o.salt)),
    };
    if salt.is_empty() {
        return Verdict::Malformed("salt-empty", "saltValue is empty".into());
    }
    let hash = match STANDARD.decode(&o.hash) {
        Ok(s) => s,
        Err(_) => return Verdict::Malformed("hash-not-base64", format!("hashValue {:?}", o.hash)),
    };
    if hash.len() != alg.len() {
        return Verdict::Malformed("hash-length", format!("hashValue has {} bytes, {} yields {}", hash.len(), o.alg, alg.len()));
    }
    if o.spin > 10_000_000 {
        return Verdict::Malformed("spin-count-out-of-range", format!("spinCount {}", o.spin));
    }
    if spin_hash_first(alg, &salt, pw, o.spin) == hash {
        return Verdict::Verifies;
    }
    if !diagnose {
        return Verdict::Fails("hash-mismatch");
    }
    if spin_counter_first(alg, &salt, pw, o.spin) == hash {
        return Verdict::Fails("iteration-order-counter-first");
    }
    if o.spin > 0 && spin_hash_first(alg, &salt, pw, o.spin - 1) == hash || spin_hash_first(alg, &salt, pw, o.spin + 1) == hash {
        return Verdict::Fails("iteration-count-off-by-one");
    }
    // counter starting at 1
    {
        let mut h = alg.hash(&[&salt, &utf16le(pw)]);
        for i in 1..=o.spin {
            h = alg.hash(&[&h, &i.to_le_bytes()]);
        }
        if h == hash {
            return Verdict::Fails("iteration-counter-starts-at-1");
        }
    }
    // password bytes as UTF-8
    {
        let mut h = alg.hash(&[&salt, pw.as_bytes()]);
        for i in 0..o.spin {
            h = alg.hash(&[&h, &i.to_le_bytes()]);
        }
        if h == hash {
            return Verdict::Fails("password-hashed-as-utf8");
        }
    }
    // password || salt
    {
        let mut h = alg.hash(&[&utf16le(pw), &salt]);
        for i in 0..o.spin {
            h = alg.hash(&[&h, &i.to_le_bytes()]);
        }
        if h == hash {
            return Verdict::Fails("salt-after-password");
        }
    }
    Verdict::Fails("hash-mismatch")
}

struct Protect {
    tier: Tier,
    cases: Vec<Case>,
}

impl Space for Protect {
    fn len(&self) -> u64 {
        self.cases.len() as u64
    }
    fn describe(&self, i: u64) -> Value {
        self.cases[i as usize].json()
    }
    fn tags(&self, i: u64) -> Vec<String> {
        self.cases[i as usize].tags()
    }
    fn run(&self, i: u64, sink: &mut Sink) {
        let c = self.cases[i as usize].clone();
        let tags_owned = c.tags();
        let tags: Vec<&str> = tags_owned.iter().map(|s| s.as_str()).collect();
        let case = c.json();
        clear_record(PROP, self.tier, i);
        let push = |sink: &mut Sink, clause: &str, symptom: &str, detail: String| {
            sink.violations.push(Violation::new(clause, symptom, &tags, case.clone(), detail));
        };
        let mut book = match host_book(c.host) {
            Ok(b) => b,
            Err(e) => {
                // loading a corpus file is not this property's subject
                sink.count("host-unloadable", 1);
                push(sink, "setup", "host-unloadable", e);
                return;
            }
        };
        // baseline package (no password set) for the clear-text scan
        let baseline_parts: Vec<(String, Vec<u8>)> = crate::dump::save_bytes(&book, c.light).ok().and_then(|b| zip_parts(&b).map(|mut p| {
            p.push(("<raw zip bytes>".into(), b));
            p
        })).unwrap_or_default();
        // rebuild the host: the save above must not influence the subject (shared-string table state)
        book = match host_book(c.host) {
            Ok(b) => b,
            Err(e) => {
                push(sink, "setup", "host-unloadable", e);
                return;
            }
        };
        if c.legacy_preset {
            for (k, _) in &c.assign {
                preset_legacy(&mut book, *k);
            }
        }
        // the calls
        for (k, p) in &c.assign {
            sink.beat.note(&format!("C15 case {}: set {} password", i, k.name()));
            let (kk, pp) = (*k, p.text.clone());
            let b = &mut book;
            let replace = c.replace;
            if let Err(m) = guarded(move || {
                if replace {
                    set_password(b, kk, PREVIOUS_PW);
                    set_password_by_replacing(b, kk, &pp)
                } else {
                    set_password(b, kk, &pp)
                }
            }) {
                push(sink, "call", &format!("panic:{}", panic_class(&m)), format!("setting the {} password panicked: {}", k.name(), m));
                return;
            }
        }
        // (1) model right after the call
        let mut m1: Vec<Obs> = vec![];
        let mut items = vec![];
        for (k, p) in &c.assign {
            let o = match observe(&book, *k) {
                Some(o) => o,
                None => {
                    push(sink, "model-verifies", "protection-object-missing", format!("no {} protection object after the call", k.name()));
                    return;
                }
            };
            sink.obs(&format!("{}|{}|{}|{}|{}", k.name(), p.text, o.alg, o.spin, o.raw));
            self.check_obs(&o, *k, p, &c, "model", sink, &push);
            if c.replace {
                sink.evaluations += 1;
                if let Verdict::Verifies = verify(&o, PREVIOUS_PW, false) {
                    push(sink, "wrong-password", "previous-password-still-accepted", format!("the {} verifier accepts the password the replaced object had ({:?}) instead of the one set last ({:?})", k.name(), PREVIOUS_PW, p.text));
                }
            }
            if let Ok(s) = STANDARD.decode(&o.salt) {
                items.push(("salt".to_string(), format!("{}-salt", k.name()), 0u32, hex(&s)));
            }
            m1.push(o);
        }
        // cross-verification inside a multi-kind case: kind j's password must not verify kind k's hash
        if c.assign.len() > 1 {
            for (a, (ka, _)) in c.assign.iter().enumerate() {
                for (b, (_, pb)) in c.assign.iter().enumerate() {
                    if a != b {
                        sink.evaluations += 1;
                        if let Verdict::Verifies = verify(&m1[a], &pb.text, false) {
                            push(sink, "wrong-password", "other-kinds-password-accepted", format!("the {} verifier accepts the password set for {}", ka.name(), c.assign[b].0.name()));
                        }
                    }
                }
            }
            sink.evaluations += 1;
            for a in 0..m1.len() {
                for b in a + 1..m1.len() {
                    if m1[a].salt == m1[b].salt {
                        push(sink, "salt-fresh", "same-salt-for-two-kinds", format!("{} and {} share the salt {}", c.assign[a].0.name(), c.assign[b].0.name(), m1[a].salt));
                    }
                }
            }
        }
        // (2) a second call with the same password (on a clone, so that the file below still belongs to m1)
        {
            let mut b2 = book.clone();
            for (idx, (k, p)) in c.assign.iter().enumerate() {
                sink.beat.note(&format!("C15 case {}: second call {}", i, k.name()));
                let (kk, pp) = (*k, p.text.clone());
                let b = &mut b2;
                if let Err(m) = guarded(move || set_password(b, kk, &pp)) {
                    push(sink, "call", &format!("panic:{}", panic_class(&m)), format!("second call for {} panicked: {}", k.name(), m));
                    continue;
                }
                sink.evaluations += 1;
                match observe(&b2, *k) {
                    None => push(sink, "model-verifies", "protection-object-missing", format!("no {} protection object after the second call", k.name())),
                    Some(o2) => {
                        if o2.salt == m1[idx].salt {
                            push(sink, "salt-fresh", "salt-repeated-on-second-call", format!("{}: two calls stored the same salt {}", k.name(), o2.salt));
                        }
                        sink.evaluations += 1;
                        match verify(&o2, &p.text, true) {
                            Verdict::Verifies => {}
                            Verdict::Fails(s) => push(sink, "model-verifies", s, format!("{} after the second call: recomputed hash != stored hash", k.name())),
                            Verdict::Malformed(s, d) => push(sink, "model-verifies", s, format!("{} after the second call: {}", k.name(), d)),
                        }
                        if let Ok(s) = STANDARD.decode(&o2.salt) {
                            items.push(("salt".to_string(), format!("{}-salt", k.name()), 1u32, hex(&s)));
                        }
                    }
                }
            }
        }
        write_record(PROP, self.tier, i, &items);
        // (3) save + reload
        sink.beat.note(&format!("C15 case {}: save + reload", i));
        let (bytes, book2) = match crate::dump::roundtrip(&book, c.light) {
            Ok(x) => x,
            Err(e) => {
                push(sink, "reload-model", "save-or-load-failed", e);
                return;
            }
        };
        let parts = match zip_parts(&bytes) {
            Some(p) => p,
            None => {
                push(sink, "xml", "package-not-a-zip", "saved bytes are not a readable zip".into());
                return;
            }
        };
        for (idx, (k, p)) in c.assign.iter().enumerate() {
            sink.evaluations += 1;
            match observe(&book2, *k) {
                None => push(sink, "reload-model", "protection-lost", format!("{} protection absent after save + reload", k.name())),
                Some(o) => {
                    let w = &m1[idx];
                    for (f, a, b) in [("algorithm", &o.alg, &w.alg), ("salt", &o.salt, &w.salt), ("hash", &o.hash, &w.hash), ("password_raw", &o.raw, &w.raw)] {
                        if a != b {
                            push(sink, "reload-model", &format!("changed:{}", f), format!("{} {}: {:?} before, {:?} after save + reload", k.name(), f, b, a));
                        }
                    }
                    if o.spin != w.spin {
                        push(sink, "reload-model", "changed:spin", format!("{} spinCount {} before, {} after save + reload", k.name(), w.spin, o.spin));
                    }
                    // the reloaded model is checked in its own right only if it differs (otherwise it is m1, already verified)
                    if &o != w {
                        self.check_obs(&o, *k, p, &c, "reloaded model", sink, &push);
                    }
                }
            }
            // (4) raw XML of the saved part
            sink.evaluations += 1;
            let names = k.attrs();
            match parts.iter().find(|(n, _)| n == k.part()) {
                None => push(sink, "xml", "part-missing", format!("{} not in the package", k.part())),
                Some((_, xml)) => match element_attrs(xml, k.element()) {
                    Err(e) => push(sink, "xml", "part-unparseable", format!("{}: {}", k.part(), e)),
                    Ok(None) => push(sink, "xml", "element-missing", format!("no <{}> in {}", k.element(), k.part())),
                    Ok(Some(m)) => {
                        let w = &m1[idx];
                        let spin = w.spin.to_string();
                        for (f, name, want) in [("algorithm", names[0], &w.alg), ("salt", names[1], &w.salt), ("spin", names[2], &spin), ("hash", names[3], &w.hash)] {
                            match m.get(name) {
                                None => push(sink, "xml", &format!("attribute-missing:{}", f), format!("<{}> has no {}", k.element(), name)),
                                Some(got) if got != want => push(sink, "xml", &format!("attribute-differs:{}", f), format!("<{} {}={:?}> but the model has {:?}", k.element(), name, got, want)),
                                _ => {}
                            }
                        }
                        if let Some(v) = m.get(names[4]) {
                            let sym = if *v == p.text && !v.is_empty() { "legacy-attribute-holds-clear-password" } else if v == LEGACY && c.legacy_preset { "legacy-attribute-kept" } else { "legacy-attribute-written" };
                            push(sink, "no-clear-text-file", sym, format!("<{} {}={:?}> in {}", k.element(), names[4], v, k.part()));
                        }
                    }
                },
            }
            // (5) clear text anywhere in the package
            if p.text.chars().count() >= 2 {
                let mut needles: Vec<(&str, Vec<u8>)> = vec![("utf8", p.text.as_bytes().to_vec()), ("utf16le", utf16le(&p.text))];
                let esc = xml_escape(&p.text);
                if esc != p.text {
                    needles.push(("utf8-xml-escaped", esc.into_bytes()));
                }
                let mut all: Vec<(String, &[u8])> = parts.iter().map(|(n, d)| (n.clone(), &d[..])).collect();
                all.push(("<raw zip bytes>".into(), &bytes[..]));
                for (enc, nd) in &needles {
                    sink.evaluations += 1;
                    for (name, data) in &all {
                        // compressed bytes are random-looking: scan them only with needles too long to occur by chance
                        if name == "<raw zip bytes>" && nd.len() < 6 {
                            continue;
                        }
                        if contains_sub(data, nd) {
                            let in_baseline = baseline_parts.iter().any(|(n, d)| n == name && contains_sub(d, nd));
                            if in_baseline {
                                sink.count("clear-text-scan-skipped-needle-in-unprotected-package", 1);
                            } else {
                                push(sink, "no-clear-text-file", &format!("clear-password-in-package:{}", enc), format!("the {} password occurs ({}) in {}", k.name(), enc, name));
                            }
                        }
                    }
                }
            } else {
                sink.count("clear-text-scan-skipped-password-shorter-than-2", 1);
            }
        }
    }
}

impl Protect {
    /// clauses on one stored verifier: verifies for the password, not for wrong ones, no raw/clear password in the model
    fn check_obs(&self, o: &Obs, k: Kind, p: &Pw, c: &Case, stage: &str, sink: &mut Sink, push: &dyn Fn(&mut Sink, &str, &str, String)) {
        sink.evaluations += 1;
        sink.beat.note(&format!("C15 oracle: verify {} ({})", k.name(), stage));
        match verify(o, &p.text, true) {
            Verdict::Verifies => {}
            Verdict::Fails(s) => push(sink, "model-verifies", s, format!("{} {}: ECMA-376 hash of the password ({} UTF-16 units) with the stored salt/spinCount {} != stored hash {}", k.name(), stage, p.text.encode_utf16().count(), o.spin, o.hash)),
            Verdict::Malformed(s, d) => {
                push(sink, "model-verifies", s, format!("{} {}: {}", k.name(), stage, d));
                return;
            }
        }
        for w in wrong_passwords(&p.text) {
            sink.evaluations += 1;
            sink.beat.note("C15 oracle: wrong password");
            if let Verdict::Verifies = verify(o, &w, false) {
                push(sink, "wrong-password", "wrong-password-accepted", format!("{} {}: the stored hash verifies for {:?} although {:?} was set", k.name(), stage, w, p.text));
            }
        }
        sink.evaluations += 1;
        if !o.raw.is_empty() {
            let sym = if o.raw == p.text { "raw-password-is-clear-text" } else if o.raw == LEGACY && c.legacy_preset { "legacy-raw-kept" } else { "raw-password-nonempty" };
            push(sink, "no-clear-text-model", sym, format!("{} {}: get_password_raw() = {:?}", k.name(), stage, o.raw));
        }
        if p.text.chars().count() >= 2 && (o.salt.contains(&p.text) || o.hash.contains(&p.text) || o.alg.contains(&p.text)) {
            push(sink, "no-clear-text-model", "clear-password-in-model-field", format!("{} {}: a stored field contains the password", k.name(), stage));
        }
    }
}

// -------------------------------------------------------------------------------------------------
struct Fresh {
    tier: Tier,
    n: u64,
}
impl Space for Fresh {
    fn len(&self) -> u64 {
        1
    }
    fn describe(&self, _i: u64) -> Value {
        json!({"kind": "salt-freshness-across-run", "records": self.n, "note": "reads the salts recorded by the cases of space `protect` in the same run (replay re-reads what is on disk)"})
    }
    fn tags(&self, _i: u64) -> Vec<String> {
        vec!["freshness".into()]
    }
    fn run(&self, _i: u64, sink: &mut Sink) {
        let f = check_freshness(PROP, self.tier, self.n);
        sink.count("freshness-records-read", f.records_read);
        sink.count("freshness-records-missing", f.records_missing);
        sink.count("freshness-values-compared", f.values);
        sink.evaluations += f.values;
        for h in &f.all_hex {
            sink.obs(h);
        }
        for (_pool, fa, wa, fb, wb, hx) in f.repeats {
            sink.violations.push(Violation::new("salt-fresh", "salt-repeated-across-run", &["freshness"], self.describe(0), format!("{} of {} equals {} of {}: {}", fa, wa, fb, wb, hx)));
        }
    }
}

pub fn space(tier: Tier, id: &str) -> Option<Box<dyn Space>> {
    if let Some(r) = reversed_of(id, |base| space(tier, base)) {
        return r;
    }
    match id {
        "protect" => Some(Box::new(Protect { tier, cases: cases(tier) })),
        "freshness" => Some(Box::new(Fresh { tier, n: cases(tier).len() as u64 })),
        _ => None,
    }
}

fn replay(tier: Tier, case: &Value) -> Vec<Violation> {
    replay_e1(space(tier, case["_space"].as_str().unwrap_or("")), case)
}

/// The oracle must accept a verifier produced by Excel itself: tests/test_files/book_lock.xlsx carries an
/// Excel-written workbookProtection whose password is "password" (also recomputed with Python hashlib).
fn self_test() -> Result<(), String> {
    let b = host_book(Host::Corpus("book_lock.xlsx"))?;
    let o = observe(&b, Kind::Workbook).ok_or("book_lock.xlsx has no workbook protection")?;
    match verify(&o, "password", false) {
        Verdict::Verifies => {}
        _ => return Err("the Excel-written verifier of book_lock.xlsx does not verify for \"password\"".into()),
    }
    match verify(&o, "passwordx", false) {
        Verdict::Fails(_) => Ok(()),
        _ => Err("the Excel-written verifier of book_lock.xlsx verifies for a wrong password".into()),
    }
}

fn run(ctx: &Ctx) -> i32 {
    if let Err(e) = self_test() {
        eprintln!("MACHINERY: C15 oracle self-test failed: {}", e);
        return 2;
    }
    let ids = ["protect", "freshness", "protect~rev"];
    let spaces = ids.iter().map(|id| (*id, space(ctx.tier, id).unwrap())).collect();
    let cs = cases(ctx.tier);
    let pws = passwords(ctx.tier);
    run_e1(
        ctx,
        E1Spec {
            spaces,
            cfg: PoolCfg { chunk: 1, case_timeout: std::time::Duration::from_secs(120), ..Default::default() },
            level: "exploration",
            rule: "full product password alphabet x {sheet, workbook, revisions} x {no preset, legacy raw hash preset} x {write_writer, write_writer_light} on new_file(); plus three kinds at once with three different passwords (rotations), plus corpus workbooks as hosts. Per assignment: model right after the call (ECMA-376 recomputation H0=H(salt||UTF16LE(pw)), Hi=H(Hi-1||LE32(i)), i=0..spinCount-1 with the STORED algorithm/salt/spinCount reproduces the stored hash; password+'x', '', password minus last char do not; get_password_raw() empty), a second call on a clone (different salt, still verifies), save + reload (all five fields unchanged), raw XML of the saved part (attributes equal the model; no password / workbookPassword / revisionsPassword attribute), and a scan of every inflated zip part and of the raw zip bytes (needles of >= 6 bytes only there) for the password as UTF-8, XML-escaped UTF-8 and UTF-16LE (skipped for passwords shorter than 2 chars, and for a needle that already occurs in the same part of the unprotected package). Space `freshness`: all salts of the run pairwise distinct. distinct_nontrivial = distinct (kind, password, algorithm, spinCount, raw) model observations plus distinct salts".into(),
            alphabets: json!({
                "passwords": pws.iter().map(|p| if p.text.chars().count() > 40 { format!("{} chars starting {:?}", p.text.chars().count(), p.text.chars().take(10).collect::<String>()) } else { p.text.clone() }).collect::<Vec<_>>(),
                "kinds": ["sheet", "workbook", "revisions", "all three with different passwords"],
                "preset": ["none", "legacy raw hash CC1A"],
                "writers": ["write_writer", "write_writer_light"],
                "hosts": ["new_file()", "tests/test_files/aaa.xlsx", "tests/test_files/book_lock.xlsx"],
                "observation_points": ["model after the call", "model after a second call", "model after save + reload", "attributes of the saved XML element", "all bytes of the package"],
            }),
            bounds: json!({"cases": cs.len(), "max_password_chars": 255, "spin_count": "as stored (100000)"}),
            exhaustive: true,
            caps_hit: vec![],
            assumptions: vec![
                "oracle self-test before every run: the Excel-written workbookProtection verifier in tests/test_files/book_lock.xlsx verifies for \"password\" and not for \"passwordx\" (also recomputed with Python hashlib)".into(),
                "trusted base: RustCrypto sha2 and base64 as primitives, zip crate for inflating parts, quick-xml for tokenising".into(),
                "the oracle verifies with the stored algorithm name among SHA-256/384/512 (the statement fixes the ECMA-376 scheme, not the digest); any other name is reported".into(),
                "clear-text scan is not meaningful for the empty and 1-character passwords and is skipped for them (counted)".into(),
                "freshness: only distinctness of salts over the run is decided; a predictable generator would pass".into(),
            ],
            min_distinct: cs.len() as u64,
        },
    )
}
