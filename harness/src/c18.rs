//! C18 — date serial numbers and calendar dates convert exactly in both directions (complete domain).
//!
//! Spaces
//!   days      one pool case per calendar year 1900..=9999: every day of the year x TIMES (5 times of day)
//!             through convert_date / convert_date_windows_1900 / excel_to_date_time_object
//!   seconds   every second of the representative days (one pool case per day and hour)
//!   display   Cell::get_formatted_value / Worksheet::get_formatted_value with date formats
//! Oracle: own proleptic-Gregorian day count (days-from-civil) + own month-length table; nothing of chrono
//! is used except the Display form of the NaiveDateTime the library returns.
use crate::common::*;
use crate::e1::*;
use crate::pool::*;
use serde_json::{json, Value};
use umya_spreadsheet::helper::date::{convert_date, convert_date_windows_1900, excel_to_date_time_object};
use umya_spreadsheet::helper::number_format::to_formatted_string;

pub fn entry() -> crate::Entry {
    crate::Entry { id: "C18", run, space, replay }
}

const Y0: i32 = 1900;
const Y1: i32 = 9999;
/// times of day checked for every day (seconds since midnight)
const TIMES: [u32; 5] = [0, 1, 43199, 43200, 86399];
/// days of which every second is checked
const SECOND_DAYS: [(i32, u32, u32); 8] = [(1900, 1, 1), (1900, 2, 28), (1900, 3, 1), (1999, 12, 31), (2000, 2, 29), (2024, 12, 31), (2100, 2, 28), (9999, 12, 31)];
const MAIN_FMT: &str = "yyyy-mm-dd hh:mm:ss";
const MONTH_ABBR: [&str; 12] = ["Jan", "Feb", "Mar", "Apr", "May", "Jun", "Jul", "Aug", "Sep", "Oct", "Nov", "Dec"];
/// secondary date formats (rendered by `render`)
const EXTRA_FMTS: [&str; 10] = ["yyyy-mm-dd", "dd/mm/yyyy", "m/d/yyyy", "m/d/yyyy h:mm", "d-mmm-yy", COND_FMTS[0], COND_FMTS[1], LIT_FMTS[0], LIT_FMTS[1], LIT_FMTS[2]];
/// quoted literals in every position: in front of the first date code, two of them side by side, at the very end
const LIT_FMTS: [&str; 3] = ["\"Due: \"yyyy-mm-dd hh:mm:ss", "yyyy-mm-dd\" at \"\"about \"hh:mm:ss", "yyyy-mm-dd\" (UTC)\""];
/// two-section codes whose FIRST section has a condition: a serial below 1 is a time of day, anything else a date;
/// which section applies is decided by the value's magnitude, not by its sign
const COND_FMTS: [&str; 2] = ["[<1]h:mm:ss;yyyy-mm-dd hh:mm:ss", "[<1]h:mm:ss;yyyy-mm-dd"];

// ------------------------------------------------------------------------------------------------
// independent calendar
fn is_leap(y: i32) -> bool {
    (y % 4 == 0 && y % 100 != 0) || y % 400 == 0
}
fn month_len(y: i32, m: u32) -> u32 {
    match m {
        1 | 3 | 5 | 7 | 8 | 10 | 12 => 31,
        4 | 6 | 9 | 11 => 30,
        _ => {
            if is_leap(y) {
                29
            } else {
                28
            }
        }
    }
}
/// days since 1970-01-01 of a proleptic Gregorian date (H. Hinnant's days_from_civil)
fn days_from_civil(y: i32, m: u32, d: u32) -> i64 {
    let y = if m <= 2 { y as i64 - 1 } else { y as i64 };
    let era = if y >= 0 { y } else { y - 399 } / 400;
    let yoe = y - era * 400;
    let mp = (m as i64 + 9) % 12;
    let doy = (153 * mp + 2) / 5 + d as i64 - 1;
    let doe = yoe * 365 + yoe / 4 - yoe / 100 + doy;
    era * 146097 + doe - 719468
}
/// the 1900 date system: day count from 1899-12-30 from 1900-03-01 on, one less before (phantom 1900-02-29)
fn serial_day(y: i32, m: u32, d: u32) -> i64 {
    let n = days_from_civil(y, m, d) - days_from_civil(1899, 12, 30);
    if (y, m) < (1900, 3) {
        n - 1
    } else {
        n
    }
}
fn want_serial(day: i64, secs: u32) -> f64 {
    day as f64 + secs as f64 / 86400.0
}
fn stamp(y: i32, m: u32, d: u32, secs: u32) -> String {
    format!("{:04}-{:02}-{:02} {:02}:{:02}:{:02}", y, m, d, secs / 3600, secs / 60 % 60, secs % 60)
}
fn render(fmt: &str, y: i32, m: u32, d: u32, secs: u32) -> String {
    let (h, mi) = (secs / 3600, secs / 60 % 60);
    match fmt {
        "yyyy-mm-dd" => format!("{:04}-{:02}-{:02}", y, m, d),
        "dd/mm/yyyy" => format!("{:02}/{:02}/{:04}", d, m, y),
        "m/d/yyyy" => format!("{}/{}/{:04}", m, d, y),
        "m/d/yyyy h:mm" => format!("{}/{}/{:04} {}:{:02}", m, d, y, h, mi),
        "d-mmm-yy" => format!("{}-{}-{:02}", d, MONTH_ABBR[(m - 1) as usize], y % 100),
        "[<1]h:mm:ss;yyyy-mm-dd" => format!("{:04}-{:02}-{:02}", y, m, d),
        "\"Due: \"yyyy-mm-dd hh:mm:ss" => format!("Due: {}", stamp(y, m, d, secs)),
        "yyyy-mm-dd\" at \"\"about \"hh:mm:ss" => format!("{:04}-{:02}-{:02} at about {:02}:{:02}:{:02}", y, m, d, h, mi, secs % 60),
        "yyyy-mm-dd\" (UTC)\"" => format!("{:04}-{:02}-{:02} (UTC)", y, m, d),
        _ => stamp(y, m, d, secs),
    }
}

fn guarded<T, F: FnOnce() -> T + std::panic::UnwindSafe>(f: F) -> Result<T, String> {
    std::panic::catch_unwind(f).map_err(|e| panic_msg(&e))
}

fn date_tags(y: i32, m: u32, d: u32) -> Vec<&'static str> {
    let mut t = vec![];
    if (y, m) < (1900, 3) {
        t.push("before-1900-03-01");
    }
    if m == 2 && d == 29 {
        t.push("leap-day");
    }
    if y % 100 == 0 {
        t.push("century-year");
    }
    if (m == 12 && d == 31) || (m == 1 && d == 1) {
        t.push("year-boundary");
    }
    if t.is_empty() {
        t.push("ordinary-date");
    }
    t
}

/// One (date, time) evaluation of the conversion clauses.  `prev` carries the previous serial of the
/// enumeration (strict monotonicity).
fn check_point(sink: &mut Sink, y: i32, m: u32, d: u32, secs: u32, prev: &mut Option<f64>, hash_it: bool) {
    sink.evaluations += 1;
    let day = serial_day(y, m, d);
    let want = want_serial(day, secs);
    let want_text = stamp(y, m, d, secs);
    let (h, mi, s) = ((secs / 3600) as i32, (secs / 60 % 60) as i32, (secs % 60) as i32);
    let case = || json!({"kind":"date-time","y":y,"m":m,"d":d,"h":h,"min":mi,"s":s});
    let tags = date_tags(y, m, d);
    // (1) date -> serial
    let r = guarded(move || (convert_date(y, m as i32, d as i32, h, mi, s), convert_date_windows_1900(y, m as i32, d as i32, h, mi, s)));
    let mut got_serial = None;
    match r {
        Err(msg) => sink.violations.push(Violation::new("to-serial", &format!("panic:{}", panic_class(&msg)), &tags, case(), msg)),
        Ok((a, b)) => {
            got_serial = Some(a);
            if a.to_bits() != b.to_bits() {
                sink.violations.push(Violation::new("to-serial", "convert_date-differs-from-windows_1900", &tags, case(), format!("convert_date={} convert_date_windows_1900={}", a, b)));
            }
            // the value defined by the date system: whole part = day number, fraction = secs/86400
            // (tolerance 1 ms, far above the 4e-5 s resolution of an f64 near 3e6 and far below one second)
            let whole_ok = a.floor() == day as f64;
            let frac_ok = ((a - day as f64) * 86400.0 - secs as f64).abs() < 1e-3;
            if !whole_ok || !frac_ok || (secs == 0 && a != day as f64) {
                let sym = if !whole_ok {
                    let delta = a.floor() - day as f64;
                    if delta == 1.0 {
                        "day-number+1"
                    } else if delta == -1.0 {
                        "day-number-1"
                    } else {
                        "day-number-wrong"
                    }
                } else {
                    "time-fraction-wrong"
                };
                sink.violations.push(Violation::new("to-serial", sym, &tags, case(), format!("{} -> serial {} ; the 1900 date system defines {}", want_text, a, want)));
            }
            // (3) strictly increasing in time
            if let Some(p) = *prev {
                if !(a > p) {
                    sink.violations.push(Violation::new("monotone", "serial-not-increasing", &tags, case(), format!("{} -> {} but the previous instant of the enumeration gave {}", want_text, a, p)));
                }
            }
            *prev = Some(a);
        }
    }
    // (2) serial -> date-time, from the reference serial and (when it differs) from the library's own serial
    let decode = |serial: f64, clause: &str, sink: &mut Sink| {
        let r = guarded(move || excel_to_date_time_object(&serial, None).to_string());
        match r {
            Err(msg) => sink.violations.push(Violation::new(clause, &format!("panic:{}", panic_class(&msg)), &tags, case(), format!("excel_to_date_time_object({}) panicked: {}", serial, msg))),
            Ok(text) => {
                if hash_it {
                    sink.obs(&text);
                }
                if text != want_text {
                    let sym = if text.get(0..10) != want_text.get(0..10) { "date-differs" } else { "time-differs" };
                    sink.violations.push(Violation::new(clause, sym, &tags, case(), format!("excel_to_date_time_object({}) = {:?}, expected {:?}", serial, text, want_text)));
                }
            }
        }
    };
    decode(want, "from-serial", sink);
    if let Some(a) = got_serial {
        if a.to_bits() != want.to_bits() {
            decode(a, "roundtrip", sink);
        }
    }
}

// ------------------------------------------------------------------------------------------------
struct Days;
impl Space for Days {
    fn len(&self) -> u64 {
        (Y1 - Y0 + 1) as u64
    }
    fn describe(&self, i: u64) -> Value {
        json!({"kind":"year","year": Y0 + i as i32, "times_of_day_s": TIMES})
    }
    fn run(&self, i: u64, sink: &mut Sink) {
        let y = Y0 + i as i32;
        // previous instant: last second of the previous year (none for 1900)
        let mut prev = if y > Y0 { guarded(move || convert_date(y - 1, 12, 31, 23, 59, 59)).ok() } else { None };
        let mut expect_day = serial_day(y, 1, 1);
        for m in 1..=12u32 {
            for d in 1..=month_len(y, m) {
                // the reference day numbers themselves are consecutive (self-check of the oracle, except the
                // phantom 1900-02-29 which has a number but no date)
                let sd = serial_day(y, m, d);
                if sd != expect_day {
                    if (y, m, d) == (1900, 3, 1) && sd == expect_day + 1 {
                    } else {
                        panic!("oracle self-check failed at {}-{}-{}", y, m, d);
                    }
                }
                expect_day = sd + 1;
                for (k, &secs) in TIMES.iter().enumerate() {
                    check_point(sink, y, m, d, secs, &mut prev, k == 3);
                }
            }
        }
    }
}

struct Seconds;
impl Space for Seconds {
    fn len(&self) -> u64 {
        SECOND_DAYS.len() as u64 * 24
    }
    fn describe(&self, i: u64) -> Value {
        let (y, m, d) = SECOND_DAYS[(i / 24) as usize];
        json!({"kind":"every-second-of-hour","y":y,"m":m,"d":d,"hour": i % 24})
    }
    fn run(&self, i: u64, sink: &mut Sink) {
        let (y, m, d) = SECOND_DAYS[(i / 24) as usize];
        let hour = (i % 24) as u32;
        let mut prev = None;
        if hour > 0 {
            let hh = hour as i32 - 1;
            prev = guarded(move || convert_date(y, m as i32, d as i32, hh, 59, 59)).ok();
        }
        for secs in hour * 3600..(hour + 1) * 3600 {
            check_point(sink, y, m, d, secs, &mut prev, true);
        }
    }
}

// ------------------------------------------------------------------------------------------------
/// Display clause.  One pool case per year.
struct Display {
    thorough: bool,
}
fn full_year(y: i32) -> bool {
    [1900, 1901, 1904, 1999, 2000, 2024, 2100, 9999].contains(&y)
}
fn boundary_year(y: i32) -> bool {
    y <= 1904 || y >= 9996 || y % 100 == 0 || y % 100 == 99 || (1996..=2004).contains(&y) || (2023..=2025).contains(&y)
}
impl Display {
    /// which days of year `y` are displayed with MAIN_FMT, and at which time
    fn main_days(&self, y: i32, m: u32, d: u32, ordinal: i64) -> bool {
        let year_edge = (m == 1 && d == 1) || (m == 2 && d >= 28) || (m == 3 && d == 1) || (m == 12 && d == 31);
        self.thorough || full_year(y) || year_edge || ordinal % 97 == 0
    }
    fn extra_days(&self, y: i32, m: u32, d: u32) -> bool {
        let month_edge = d == 1 || d == month_len(y, m) || (m == 2 && d >= 28);
        let year_edge = (m == 1 && d == 1) || (m == 2 && d >= 28) || (m == 3 && d == 1) || (m == 12 && d == 31);
        if self.thorough {
            year_edge || (month_edge && (boundary_year(y) || y % 10 == 0)) || full_year(y)
        } else {
            month_edge && (full_year(y) || y % 400 == 0 || y % 1000 == 999)
        }
    }
}
/// (one formatting call costs ~1 ms in the library, so the three entry points are compared on a subset)
fn show_cell(serial: f64, fmt: &str, all_paths: bool) -> Result<(String, String, String), String> {
    let f = fmt.to_string();
    guarded(move || {
        let mut ws = umya_spreadsheet::Worksheet::default();
        {
            let c = ws.get_cell_mut((2, 3));
            c.set_value_number(serial);
            c.get_style_mut().get_number_format_mut().set_format_code(f.clone());
        }
        let via_sheet = ws.get_formatted_value((2, 3));
        if !all_paths {
            return (via_sheet.clone(), via_sheet.clone(), via_sheet);
        }
        let via_cell = ws.get_cell((2, 3)).map(|c| c.get_formatted_value()).unwrap_or_default();
        let via_helper = to_formatted_string(&serial.to_string(), &f);
        (via_sheet, via_cell, via_helper)
    })
}
fn check_display(sink: &mut Sink, y: i32, m: u32, d: u32, secs: u32, fmt: &'static str) {
    sink.evaluations += 1;
    let all_paths = (serial_day(y, m, d) + secs as i64) % 16 == 0;
    let serial = want_serial(serial_day(y, m, d), secs);
    let want = render(fmt, y, m, d, secs);
    let case = json!({"kind":"display","y":y,"m":m,"d":d,"secs":secs,"serial":serial,"format":fmt});
    let mut tags = date_tags(y, m, d);
    tags.push(if fmt == MAIN_FMT { "fmt-main" } else { "fmt-extra" });
    match show_cell(serial, fmt, all_paths) {
        Err(msg) => sink.violations.push(Violation::new("display", &format!("panic:{}", panic_class(&msg)), &tags, case, msg)),
        Ok((a, b, c)) => {
            sink.obs(&a);
            if a != want {
                let sym = if a.len() == want.len() { "wrong-date-text" } else { "wrong-shape" };
                sink.violations.push(Violation::new("display", sym, &tags, case.clone(), format!("serial {} with format {:?} displays {:?}, expected {:?}", serial, fmt, a, want)));
            }
            if b != a || c != a {
                sink.violations.push(Violation::new("display", "entry-points-disagree", &tags, case, format!("Worksheet::get_formatted_value={:?} Cell::get_formatted_value={:?} to_formatted_string={:?}", a, b, c)));
            }
        }
    }
}
impl Space for Display {
    fn len(&self) -> u64 {
        (Y1 - Y0 + 1) as u64 + SECOND_DAYS.len() as u64 * 24
    }
    fn describe(&self, i: u64) -> Value {
        let ny = (Y1 - Y0 + 1) as u64;
        if i < ny {
            json!({"kind":"display-year","year": Y0 + i as i32, "main_format": MAIN_FMT, "extra_formats": EXTRA_FMTS})
        } else {
            let j = i - ny;
            let (y, m, d) = SECOND_DAYS[(j / 24) as usize];
            json!({"kind":"display-every-second-of-hour","y":y,"m":m,"d":d,"hour": j % 24, "format": MAIN_FMT})
        }
    }
    fn run(&self, i: u64, sink: &mut Sink) {
        // before the dates of a case: the conditional codes shown a TIME OF DAY (their other section); whatever the
        // library remembers about a code from that must not decide how the dates that follow are shown
        for f in COND_FMTS {
            for (serial, want) in [("0.25", "6:00:00"), ("0.75", "18:00:00")] {
                sink.evaluations += 1;
                match guarded(move || to_formatted_string(serial, f)) {
                    Err(msg) => sink.violations.push(Violation::new("display", &format!("panic:{}", panic_class(&msg)), &["fmt-conditional"], json!({"kind":"display-time-of-day","serial":serial,"format":f}), msg)),
                    Ok(got) => {
                        if got != want {
                            sink.violations.push(Violation::new("display", "time-of-day-under-conditional-code", &["fmt-conditional"], json!({"kind":"display-time-of-day","serial":serial,"format":f}), format!("serial {} with format {:?} displays {:?}, expected {:?}", serial, f, got, want)));
                        }
                    }
                }
            }
        }
        let ny = (Y1 - Y0 + 1) as u64;
        if i >= ny {
            let j = i - ny;
            let (y, m, d) = SECOND_DAYS[(j / 24) as usize];
            let hour = (j % 24) as u32;
            // thorough: every second; quick: every second of the first and last minute of the hour + every 61st second
            // instants that are not whole seconds: whether the library rounds or truncates is not pinned, but the
            // instant it shows lies within one second of the instant the serial denotes (never a day away)
            if y < 9999 || hour < 23 {
                for (secs, tenth) in [(hour * 3600 + 3599, 4u32), (hour * 3600 + 3599, 5), (hour * 3600 + 3599, 6), (hour * 3600 + 3599, 9), (hour * 3600 + 1800, 5)] {
                    sink.evaluations += 1;
                    let day = serial_day(y, m, d);
                    let serial = day as f64 + (secs as f64 + tenth as f64 / 10.0) / 86400.0;
                    let case = json!({"kind":"display-subsecond","y":y,"m":m,"d":d,"secs":secs,"tenths":tenth,"serial":serial,"format":MAIN_FMT});
                    match show_cell(serial, MAIN_FMT, true) {
                        Err(msg) => sink.violations.push(Violation::new("display", &format!("panic:{}", panic_class(&msg)), &["subsecond"], case, msg)),
                        Ok((a, b, c)) => {
                            sink.obs(&a);
                            let near = [0u32, 1].iter().any(|up| {
                                let t = secs + up;
                                if t < 86400 {
                                    a == stamp(y, m, d, t)
                                } else {
                                    // first second of the next day
                                    let (ny, nm, nd) = if d < month_len(y, m) { (y, m, d + 1) } else if m < 12 { (y, m + 1, 1) } else { (y + 1, 1, 1) };
                                    a == stamp(ny, nm, nd, 0)
                                }
                            });
                            if !near {
                                sink.violations.push(Violation::new("display", "subsecond-instant-shown-more-than-a-second-away", &["subsecond"], case.clone(), format!("serial {} ({}-{:02}-{:02} second {}.{} of the day) displays {:?}", serial, y, m, d, secs, tenth, a)));
                            }
                            if b != a || c != a {
                                sink.violations.push(Violation::new("display", "entry-points-disagree", &["subsecond"], case, format!("Worksheet::get_formatted_value={:?} Cell::get_formatted_value={:?} to_formatted_string={:?}", a, b, c)));
                            }
                        }
                    }
                }
            }
            for secs in hour * 3600..(hour + 1) * 3600 {
                let k = secs % 3600;
                let full_day = self.thorough && [(1900, 1, 1), (2000, 2, 29), (9999, 12, 31)].contains(&(y, m, d));
                if full_day || k < 2 || k >= 3598 || k % if self.thorough { 7 } else { 601 } == 0 {
                    check_display(sink, y, m, d, secs, MAIN_FMT);
                }
            }
            return;
        }
        let y = Y0 + i as i32;
        let mut ordinal = serial_day(y, 1, 1);
        for m in 1..=12u32 {
            for d in 1..=month_len(y, m) {
                if self.main_days(y, m, d, ordinal) {
                    // the time of day rotates through TIMES with the day number
                    let secs = TIMES[(ordinal % 5) as usize];
                    check_display(sink, y, m, d, secs, MAIN_FMT);
                }
                if self.extra_days(y, m, d) {
                    for f in EXTRA_FMTS {
                        check_display(sink, y, m, d, TIMES[((ordinal + 2) % 5) as usize], f);
                    }
                }
                ordinal += 1;
            }
        }
    }
}

// ------------------------------------------------------------------------------------------------
pub fn space(tier: Tier, id: &str) -> Option<Box<dyn Space>> {
    if let Some(r) = reversed_of(id, |base| space(tier, base)) {
        return r;
    }
    if let Some(r) = concurrent_of(id, |base| space(tier, base)) {
        return r;
    }
    match id {
        "days" => Some(Box::new(Days)),
        "seconds" => Some(Box::new(Seconds)),
        "display" => Some(Box::new(Display { thorough: tier == Tier::Thorough })),
        _ => None,
    }
}

fn replay(tier: Tier, case: &Value) -> Vec<Violation> {
    replay_e1(space(tier, case["_space"].as_str().unwrap_or("")), case)
}

fn run(ctx: &Ctx) -> i32 {
    let ids: Vec<&'static str> = if ctx.tier == Tier::Thorough { vec!["days", "seconds", "display", "days~rev", "seconds~rev", "display~rev", "display~par"] } else { vec!["days", "seconds", "display", "seconds~rev", "display~rev", "display~par"] };
    let spaces = ids.iter().map(|id| (*id, space(ctx.tier, id).unwrap())).collect();
    let thorough = ctx.tier == Tier::Thorough;
    let total_days = days_from_civil(9999, 12, 31) - days_from_civil(1900, 1, 1) + 1;
    run_e1(
        ctx,
        E1Spec {
            spaces,
            cfg: PoolCfg { chunk: 8, case_timeout: std::time::Duration::from_secs(120), ..Default::default() },
            level: "exploration",
            rule: "complete enumeration of the 1900 date system's calendar: every day 1900-01-01..9999-12-31 (one pool case per year, days generated by the harness's own leap-year rule and month table) x 5 times of day, and every second of 8 representative days. Per instant: convert_date and convert_date_windows_1900 must give whole part = own days-from-civil count since 1899-12-30 (minus 1 before 1900-03-01) and fraction = secs/86400 within 1 ms; excel_to_date_time_object of the reference serial (and of the library's serial when it differs bitwise) must print the same y-m-d h:m:s; serials strictly increase along the enumeration (year cases are linked through the last second of the previous year). Display: a numeric cell holding the reference serial with a date format must show the date through Worksheet::get_formatted_value, Cell::get_formatted_value and to_formatted_string. distinct_nontrivial = distinct date-time strings returned by the library (per day the 12:00:00 decode; every decode of the every-second days; every displayed string)".into(),
            alphabets: json!({"days": total_days, "times_of_day_s": TIMES, "every_second_days": SECOND_DAYS.iter().map(|(y,m,d)| format!("{:04}-{:02}-{:02}", y, m, d)).collect::<Vec<_>>(), "main_format": MAIN_FMT, "extra_formats": EXTRA_FMTS}),
            bounds: json!({
                "conversion": "all days x 5 times + 8 x 86400 seconds (both tiers)",
                "display_main_format": if thorough {"every day (time of day rotating through the 5 times with the day number) + every second of 1900-01-01, 2000-02-29, 9999-12-31 and every 7th second (+ first/last 2 of each hour) of the other 5 representative days"} else {"every day of the years 1900,1901,1904,1999,2000,2024,2100,9999; Jan 1, Feb 28/29, Mar 1, Dec 31 of every year; every 97th day; time rotating through the 5 times; representative days: first/last 2 seconds of each hour + every 601st second (one formatting call costs ~1 ms)"},
                "display_extra_formats": if thorough {"Jan 1, Feb 28/29, Mar 1, Dec 31 of every year; first/last day of every month of boundary years (<=1904, >=9996, yy in {00,99}, 1996..2004, 2023..2025) and every 10th year; every day of the 8 full years"} else {"first/last day of every month and Feb 28/29 of the 8 full years, every 400th year and years ..999"}, "display_entry_points": "Worksheet::get_formatted_value always; Cell::get_formatted_value and to_formatted_string compared on every 16th evaluation"
            }),
            exhaustive: true,
            caps_hit: vec![],
            assumptions: vec![
                "serial 60 (the phantom 1900-02-29) and serials below 1 are not calendar dates of the statement and are not evaluated".into(),
                "1904 date system (convert_date_mac_1904) is outside the statement".into(),
                "the serial's fraction is compared with a 1 ms tolerance (an f64 near 3e6 resolves 4e-5 s); whole days must be exact".into(),
                "display is checked for the formats yyyy-mm-dd hh:mm:ss, yyyy-mm-dd, dd/mm/yyyy, m/d/yyyy, m/d/yyyy h:mm, d-mmm-yy (English month abbreviations); AM/PM, weekday and era formats are not pinned by the statement".into(),
            ],
            min_distinct: 1_000_000,
        },
    )
}
