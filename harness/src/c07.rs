//! C07 — structural edits relocate content exactly like a reference grid (engine E2, model checking).
//!
//! Breadth-first exploration of edit histories over REAL `Spreadsheet` objects (two sheets) stepped in
//! lock-step with the library-free reference grid of `c07_refgrid.rs`.  Every transition is a conformance
//! check dump(real') == model' on every sheet, plus: no panic, every coordinate inside the grid, and the
//! law remove(p,n) after insert(p,n) == identity (as explicit "law" operations of the alphabet, i.e.
//! evaluated on every expanded state).  After a divergence the violation is reported once and the model is
//! re-synchronised to the real object, so deeper levels keep checking other things.
use crate::common::*;
use crate::e1::*;
use crate::e2::*;
use crate::pool::*;
use serde_json::{json, Value};
use std::cell::Cell as StdCell;
use std::cell::RefCell as StdRefCell;
use std::collections::{BTreeMap, BTreeSet};
use umya_spreadsheet::{Cell, Comment, ConditionalFormatting, ConditionalFormattingRule, Hyperlink, Range, SequenceOfReferences, Spreadsheet, Style, Worksheet};

#[path = "c07_refgrid.rs"]
pub mod refgrid;
use refgrid::*;

pub fn entry() -> crate::Entry {
    crate::Entry { id: "C07", run, space, replay }
}

/// the third title differs from the first ONLY IN CASE: the library accepts it, and an edit addressed to "Sheet1" by
/// name is not addressed to it
const NAMES: [&str; 3] = ["Sheet1", "Sheet2", "SHEET1"];
const DEFAULT_COL_WIDTH: f64 = 8.38;
/// violations kept per (clause, symptom, tags) class inside one pool case (the rest is counted)
const KEEP_PER_CLASS_PER_CASE: u32 = 3;

// =================================================================================================
// dump of the real object (public getters only)

fn style_tag(s: &Style) -> String {
    let bold = s.get_font().map(|f| *f.get_bold()).unwrap_or(false);
    let fill = s.get_background_color().map(|c| c.get_argb().to_string()).unwrap_or_default();
    // a loaded style spells the default number format out: "General" is the same as none
    let nf = s.get_numbering_format().map(|n| n.get_format_code().to_string()).filter(|c| c != "General").unwrap_or_default();
    format!("{}|{}|{}", bold as u8, fill, nf)
}
const STYLE_TAGS: [&str; 3] = ["0||", "1||", "0|FFFFFF00|0.00"];
fn style_idx(s: &Style) -> u8 {
    let t = style_tag(s);
    STYLE_TAGS.iter().position(|x| *x == t).map(|i| i as u8).unwrap_or(255)
}

fn range_rect(r: &Range) -> Rect {
    let c1 = r.get_coordinate_start_col().map(|c| *c.get_num()).unwrap_or(0);
    let r1 = r.get_coordinate_start_row().map(|c| *c.get_num()).unwrap_or(0);
    let c2 = r.get_coordinate_end_col().map(|c| *c.get_num()).unwrap_or(c1);
    let r2 = r.get_coordinate_end_row().map(|c| *c.get_num()).unwrap_or(r1);
    Rect::new(r1, c1, r2, c2)
}

pub struct SheetDump {
    /// the part the reference model speaks about
    pub view: RefSheet,
    /// remaining positional state (blank cells, default row/column table entries): part of the state key only
    pub extra: String,
    /// every coordinate-bearing object, for the in-grid clause
    pub coords: Vec<(&'static str, Rect)>,
    /// incoherences of the object itself: (symptom, kind, detail)
    pub anomalies: Vec<(&'static str, &'static str, String)>,
    /// merges and (flattened) conditional-format rectangles in the order the library lists them; used only to
    /// pair objects when NAMING a difference (the verdict is the multiset comparison of the views)
    pub raw_merges: Vec<(String, Rect)>,
    pub raw_cfs: Vec<(String, Rect)>,
    /// objects that are not part of the model view but are adjusted by the edits and can make them panic:
    /// the VML box of each comment, converted to 1-based (kind "comment-anchor"); part of the state key and of tags
    pub aux: Vec<(&'static str, Rect)>,
}

fn is_blank(c: &RefCell) -> bool {
    c.value.is_empty() && c.kind.is_empty() && c.formula.is_empty() && c.style == STYLE_TAGS[0] && c.link.is_none()
}

pub fn dump_sheet(ws: &Worksheet) -> SheetDump {
    let mut view = RefSheet::default();
    view.name = ws.get_name().to_string();
    let mut extra = String::new();
    let mut coords = vec![];
    let mut anomalies = vec![];
    // cells: map key is (row, col)
    let mut cells: Vec<(&(u32, u32), &Box<Cell>)> = ws.get_collection_to_hashmap().iter().collect();
    cells.sort_by_key(|x| *x.0);
    for (k, c) in cells {
        let own = (*c.get_coordinate().get_row_num(), *c.get_coordinate().get_col_num());
        if own != *k {
            anomalies.push(("cell-own-coordinate-stale", "cell", format!("map key {} holds a cell whose own coordinate is {}", a1(k.0, k.1), a1(own.0, own.1))));
            extra.push_str(&format!("own{:?}@{:?};", own, k));
        }
        coords.push(("cell", Rect::new(k.0, k.1, k.0, k.1)));
        let rc = RefCell {
            value: c.get_value().to_string(),
            kind: c.get_data_type().to_string(),
            formula: c.get_formula().to_string(),
            style: style_tag(c.get_style()),
            link: c.get_hyperlink().map(|h| h.get_url().to_string()),
        };
        if is_blank(&rc) {
            extra.push_str(&format!("b{},{};", k.0, k.1));
        } else {
            view.cells.insert(*k, rc);
        }
    }
    // row table
    let mut rows: Vec<_> = ws.get_row_dimensions_to_hashmap().iter().collect();
    rows.sort_by_key(|x| *x.0);
    for (k, r) in rows {
        let num = *r.get_row_num();
        if num != *k {
            anomalies.push(("rowdim-own-number-stale", "rowdim", format!("row table key {} holds row {}", k, num)));
            extra.push_str(&format!("rown{}@{};", num, k));
        }
        coords.push(("rowdim", Rect::new(num, 1, num, 1)));
        let h = *r.get_height();
        let st = style_idx(r.get_style());
        if *r.get_custom_height() || *r.get_hidden() || h != 0.0 || st != 0 {
            if view.rows.insert(num, DimSet { size_bits: h.to_bits(), hidden: *r.get_hidden(), style: st }).is_some() {
                anomalies.push(("rowdim-duplicated", "rowdim", format!("two row table entries for row {}", num)));
            }
        } else {
            extra.push_str(&format!("r{};", num));
        }
    }
    // column table (a list)
    let mut cols: Vec<(u32, f64, bool, u8)> = ws.get_column_dimensions().iter().map(|c| (*c.get_col_num(), *c.get_width(), *c.get_hidden(), style_idx(c.get_style()))).collect();
    cols.sort_by(|a, b| (a.0, a.1.to_bits(), a.2, a.3).cmp(&(b.0, b.1.to_bits(), b.2, b.3)));
    for (num, w, hidden, st) in cols {
        coords.push(("coldim", Rect::new(1, num, 1, num)));
        if w != DEFAULT_COL_WIDTH || hidden || st != 0 {
            if view.cols.insert(num, DimSet { size_bits: w.to_bits(), hidden, style: st }).is_some() {
                anomalies.push(("coldim-duplicated", "coldim", format!("two column table entries with settings for column {}", num)));
            }
        } else {
            extra.push_str(&format!("c{};", num));
        }
    }
    let mut raw_merges = vec![];
    let mut raw_cfs = vec![];
    let mut aux = vec![];
    for m in ws.get_merge_cells() {
        let r = range_rect(m);
        coords.push(("merge", r));
        view.merges.push(r);
        raw_merges.push((String::new(), r));
    }
    let mut anchors = vec![];
    for c in ws.get_comments() {
        let k = (*c.get_coordinate().get_row_num(), *c.get_coordinate().get_col_num());
        coords.push(("comment", Rect::new(k.0, k.1, k.0, k.1)));
        view.comments.entry(k).or_default().push(c.get_text().get_text().to_string());
        let a = c.get_anchor();
        // the anchor is stored 0-based; the edits adjust (value + 1)
        anchors.push((k, Rect::new(a.get_top_row().saturating_add(1), a.get_left_column().saturating_add(1), a.get_bottom_row().saturating_add(1), a.get_right_column().saturating_add(1))));
    }
    anchors.sort();
    for (k, r) in anchors {
        extra.push_str(&format!("anchor{:?}={:?};", k, r));
        aux.push(("comment-anchor", r));
    }
    for cf in ws.get_conditional_formatting_collection() {
        let tag = cf.get_conditional_collection().iter().map(|r| r.get_priority().to_string()).collect::<Vec<_>>().join(",");
        let rects: Vec<Rect> = cf.get_sequence_of_references().get_range_collection().iter().map(range_rect).collect();
        for r in &rects {
            coords.push(("cf", *r));
            raw_cfs.push((tag.clone(), *r));
        }
        view.cfs.push((tag, rects));
    }
    if let Some(f) = ws.get_auto_filter() {
        let r = range_rect(f.get_range());
        coords.push(("filter", r));
        view.filter = Some(r);
    }
    view.normalise();
    SheetDump { view, extra, coords, anomalies, raw_merges, raw_cfs, aux }
}

fn grid_problems(coords: &[(&'static str, Rect)]) -> BTreeSet<(&'static str, &'static str)> {
    let mut out = BTreeSet::new();
    for (kind, r) in coords {
        // both ends 0 = the axis is absent (whole-column / whole-row range); one end 0 is garbage
        let rows_absent = r.r1 == 0 && r.r2 == 0 && r.c1 != 0;
        let cols_absent = r.c1 == 0 && r.c2 == 0 && r.r1 != 0;
        if (r.r1 == 0 || r.r2 == 0) && !rows_absent {
            out.insert(("row-0", *kind));
        }
        if (r.c1 == 0 || r.c2 == 0) && !cols_absent {
            out.insert(("col-0", *kind));
        }
        if r.r1 > MAXR || r.r2 > MAXR || r.c1 > MAXC || r.c2 > MAXC {
            out.insert(("beyond-grid", *kind));
        }
        if r.r1 > r.r2 || r.c1 > r.c2 {
            out.insert(("start-after-end", *kind));
        }
    }
    out
}

// =================================================================================================
// seeds: one declarative spec applied to the real object (setters) and, by hand, to the model

#[derive(Clone, Debug)]
struct CellSpec {
    r: u32,
    c: u32,
    text: Option<&'static str>,
    number: Option<f64>,
    formula: Option<&'static str>,
    style: usize,
    link: Option<&'static str>,
}
fn cs(r: u32, c: u32) -> CellSpec {
    CellSpec { r, c, text: None, number: None, formula: None, style: 0, link: None }
}
impl CellSpec {
    fn t(mut self, s: &'static str) -> Self {
        self.text = Some(s);
        self
    }
    fn n(mut self, x: f64) -> Self {
        self.number = Some(x);
        self
    }
    fn f(mut self, s: &'static str) -> Self {
        self.formula = Some(s);
        self
    }
    fn st(mut self, i: usize) -> Self {
        self.style = i;
        self
    }
    fn l(mut self, s: &'static str) -> Self {
        self.link = Some(s);
        self
    }
}

#[derive(Clone, Debug, Default)]
struct SheetSpec {
    cells: Vec<CellSpec>,
    rows: Vec<(u32, f64, bool)>,
    cols: Vec<(u32, f64, bool)>,
    /// (row, style index): the row DIMENSION has a style of its own (new cells of that row inherit it; cells that are
    /// moved, copied or set there keep their own)
    row_styles: Vec<(u32, usize)>,
    col_styles: Vec<(u32, usize)>,
    merges: Vec<Rect>,
    comments: Vec<(u32, u32, &'static str)>,
    cfs: Vec<(i32, Vec<Rect>)>,
    filter: Option<Rect>,
}

fn make_style(i: usize) -> Style {
    let mut s = Style::default();
    match i {
        1 => {
            s.get_font_mut().set_bold(true);
        }
        2 => {
            s.set_background_color("FFFFFF00");
            s.get_number_format_mut().set_format_code("0.00");
        }
        _ => {}
    }
    s
}

fn build_real_sheet(ws: &mut Worksheet, sp: &SheetSpec) {
    for c in &sp.cells {
        let cell = ws.get_cell_mut((c.c, c.r));
        if let Some(t) = c.text {
            cell.set_value_string(t);
        }
        if let Some(x) = c.number {
            cell.set_value_number(x);
        }
        if let Some(f) = c.formula {
            cell.set_formula(f);
        }
        if c.style != 0 {
            cell.set_style(make_style(c.style));
        }
        if let Some(u) = c.link {
            let mut h = Hyperlink::default();
            h.set_url(u);
            cell.set_hyperlink(h);
        }
    }
    for (r, h, hidden) in &sp.rows {
        let row = ws.get_row_dimension_mut(r);
        row.set_height(*h);
        row.set_hidden(*hidden);
    }
    for (c, w, hidden) in &sp.cols {
        let col = ws.get_column_dimension_by_number_mut(c);
        col.set_width(*w);
        col.set_hidden(*hidden);
    }
    for (r, st) in &sp.row_styles {
        ws.get_row_dimension_mut(r).set_style(make_style(*st));
    }
    for (c, st) in &sp.col_styles {
        ws.get_column_dimension_by_number_mut(c).set_style(make_style(*st));
    }
    for m in &sp.merges {
        ws.add_merge_cells(m.a1());
    }
    for (r, c, t) in &sp.comments {
        let mut cm = Comment::default();
        cm.new_comment((*c, *r));
        cm.set_text_string(*t);
        cm.set_author("uv");
        ws.add_comments(cm);
    }
    for (prio, rects) in &sp.cfs {
        let mut cf = ConditionalFormatting::default();
        let mut sq = SequenceOfReferences::default();
        sq.set_sqref(rects.iter().map(|r| r.a1()).collect::<Vec<_>>().join(" "));
        cf.set_sequence_of_references(sq);
        let mut rule = ConditionalFormattingRule::default();
        rule.set_priority(*prio);
        cf.add_conditional_collection(rule);
        ws.add_conditional_formatting_collection(cf);
    }
    if let Some(f) = &sp.filter {
        ws.set_auto_filter(f.a1());
    }
}

fn fmt_number(x: f64) -> String {
    // the seeds only use numbers whose shortest representation is unambiguous
    format!("{}", x)
}

fn build_model_sheet(name: &str, sp: &SheetSpec) -> RefSheet {
    let mut m = RefSheet::default();
    m.name = name.to_string();
    for c in &sp.cells {
        let (value, kind) = match (c.text, c.number) {
            (_, Some(x)) => (fmt_number(x), "n"),
            (Some(t), None) => (t.to_string(), "s"),
            (None, None) => (String::new(), ""),
        };
        m.cells.insert((c.r, c.c), RefCell { value, kind: kind.to_string(), formula: c.formula.unwrap_or("").to_string(), style: STYLE_TAGS[c.style].to_string(), link: c.link.map(|s| s.to_string()) });
    }
    for (r, h, hidden) in &sp.rows {
        m.rows.insert(*r, DimSet { size_bits: h.to_bits(), hidden: *hidden, style: 0 });
    }
    for (c, w, hidden) in &sp.cols {
        m.cols.insert(*c, DimSet { size_bits: w.to_bits(), hidden: *hidden, style: 0 });
    }
    for (r, st) in &sp.row_styles {
        m.rows.entry(*r).or_insert(DimSet { size_bits: 0f64.to_bits(), hidden: false, style: 0 }).style = *st as u8;
    }
    for (c, st) in &sp.col_styles {
        m.cols.entry(*c).or_insert(DimSet { size_bits: DEFAULT_COL_WIDTH.to_bits(), hidden: false, style: 0 }).style = *st as u8;
    }
    m.merges = sp.merges.clone();
    for (r, c, t) in &sp.comments {
        m.comments.entry((*r, *c)).or_default().push(t.to_string());
    }
    for (prio, rects) in &sp.cfs {
        m.cfs.push((prio.to_string(), rects.clone()));
    }
    m.filter = sp.filter;
    m.normalise();
    m
}

fn rc(s: &str) -> Rect {
    // tiny A1 parser for seed literals only (own code)
    fn cell(t: &str) -> (u32, u32) {
        let letters: String = t.chars().take_while(|c| c.is_ascii_alphabetic()).collect();
        let digits: String = t.chars().skip_while(|c| c.is_ascii_alphabetic()).collect();
        let mut c = 0u32;
        for ch in letters.chars() {
            c = c * 26 + (ch as u32 - 'A' as u32 + 1);
        }
        // a corner without digits (C) or without letters (3) leaves that axis absent (0)
        (digits.parse().unwrap_or(0), c)
    }
    let mut it = s.split(':');
    let a = cell(it.next().unwrap());
    let b = it.next().map(cell).unwrap_or(a);
    Rect::new(a.0, a.1, b.0, b.1)
}

/// the populated second sheet shared by all seeds
fn other_sheet_spec() -> SheetSpec {
    SheetSpec {
        cells: vec![cs(1, 1).t("o-A1").l("https://example.com/o1"), cs(2, 2).t("o-B2").st(1), cs(4, 3).f("PI()").st(2), cs(5, 1).n(42.0), cs(3, 4).t("o-D3")],
        rows: vec![(3, 22.5, false), (5, 31.0, true)],
        cols: vec![(2, 15.0, false), (4, 3.5, true)],
        row_styles: vec![(3, 1), (6, 2)],
        col_styles: vec![(2, 2), (6, 1)],
        merges: vec![rc("B3:C4")],
        comments: vec![(2, 2, "o-note-B2"), (5, 4, "o-note-D5")],
        cfs: vec![(7, vec![rc("A2:B3")])],
        filter: None,
    }
}

const SEED_NAMES: [&str; 6] = ["empty", "dense", "annotated", "grid-limits", "dense-reloaded", "annotated-reloaded"];
/// seeds 4 and 5 are seeds 1 and 2 as the READER leaves them (saved to memory and loaded again)
const RELOADED_OF: [Option<usize>; 6] = [None, None, None, None, Some(1), Some(2)];

fn seed_specs(seed: usize) -> [SheetSpec; 3] {
    let first = match seed {
        0 => SheetSpec::default(),
        1 => {
            // dense 4x4 block with values, two styles, reference-free formulas, row heights, column widths
            let mut cells = vec![];
            const TXT: [[&str; 4]; 4] = [["r1c1", "r1c2", "r1c3", "r1c4"], ["r2c1", "r2c2", "r2c3", "r2c4"], ["r3c1", "r3c2", "r3c3", "r3c4"], ["r4c1", "r4c2", "r4c3", "r4c4"]];
            for r in 1..=4u32 {
                for c in 1..=4u32 {
                    let mut x = cs(r, c);
                    if (r, c) == (3, 2) {
                        x = x.f("1+1");
                    } else if (r, c) == (1, 4) {
                        x = x.f("PI()").n(3.5);
                    } else if (r + c) % 3 == 0 {
                        x = x.n((r * 10 + c) as f64 + 0.25);
                    } else {
                        x = x.t(TXT[(r - 1) as usize][(c - 1) as usize]);
                    }
                    if r == c {
                        x = x.st(1);
                    } else if c == 3 {
                        x = x.st(2);
                    }
                    cells.push(x);
                }
            }
            SheetSpec { cells, rows: vec![(2, 30.0, false), (4, 12.5, false)], cols: vec![(2, 20.0, false), (4, 5.0, true)], row_styles: vec![(3, 1), (4, 2), (5, 1)], col_styles: vec![(1, 2), (2, 1), (5, 2)], ..Default::default() }
        }
        2 => SheetSpec {
            cells: vec![cs(1, 1).t("a-A1"), cs(2, 2).t("a-B2").l("https://example.com/b2"), cs(3, 3).n(7.0).l("https://example.com/c3").st(1), cs(5, 3).t("a-C5"), cs(2, 4).t("a-D2").st(2), cs(6, 5).f("1+1")],
            rows: vec![(2, 18.0, false), (5, 40.0, true)],
            cols: vec![(3, 11.0, false)],
            row_styles: vec![(3, 2), (5, 1)],
            col_styles: vec![(1, 1), (3, 2)],
            merges: vec![rc("A1:B2"), rc("C3:C5"), rc("B2:D2")],
            comments: vec![(1, 1, "note-A1"), (4, 3, "note-C4"), (2, 4, "note-D2")],
            cfs: vec![(1, vec![rc("A1:B3"), rc("D4:D6")]), (2, vec![rc("C2")]), (4, vec![rc("C:D")]), (5, vec![rc("3:4"), rc("F:F")])],
            filter: Some(rc("B2:D6")),
        },
        _ => SheetSpec {
            cells: vec![cs(1, 1).t("g-A1"), cs(1, MAXC).t("g-XFD1").st(1), cs(MAXR, 1).n(9.0), cs(MAXR, MAXC).t("g-XFD1048576").l("https://example.com/last")],
            rows: vec![(MAXR, 14.0, false)],
            cols: vec![(MAXC, 9.5, false)],
            row_styles: vec![],
            col_styles: vec![],
            merges: vec![rc("XFC1048575:XFD1048576")],
            comments: vec![(MAXR, MAXC, "note-last")],
            cfs: vec![(3, vec![rc("XFD1048575:XFD1048576")])],
            filter: None,
        },
    };
    [first, other_sheet_spec(), case_twin_spec()]
}

/// the small third sheet (its title is the first sheet's in another case)
fn case_twin_spec() -> SheetSpec {
    SheetSpec {
        cells: vec![cs(1, 1).t("t-A1"), cs(2, 2).n(5.0).st(1), cs(3, 4).t("t-D3").l("https://example.com/t")],
        rows: vec![(2, 19.0, false)],
        cols: vec![(3, 13.0, false)],
        row_styles: vec![],
        col_styles: vec![],
        merges: vec![rc("A3:B4")],
        comments: vec![(2, 2, "t-note-B2")],
        cfs: vec![(9, vec![rc("B2:C3")])],
        filter: None,
    }
}

fn build_seed(seed: usize) -> (Spreadsheet, RefBook) {
    if let Some(base) = RELOADED_OF[seed] {
        let (book, model) = build_seed(base);
        if std::env::var("C07_DUMP_SEED").is_ok() {
            let _ = std::fs::write(format!("/tmp/c07seed{}.xlsx", seed), crate::dump::save_bytes(&book, false).unwrap());
        }
        let (_, b2) = crate::dump::roundtrip(&book, false).expect("seed workbook saves and loads");
        return (b2, model);
    }
    let specs = seed_specs(seed);
    // the documented constructor (theme + default style tables); Spreadsheet::default() alone cannot be saved validly
    let mut book = umya_spreadsheet::new_file_empty_worksheet();
    let mut model = vec![];
    for (i, sp) in specs.iter().enumerate() {
        let ws = book.new_sheet(NAMES[i]).expect("new_sheet");
        build_real_sheet(ws, sp);
        model.push(build_model_sheet(NAMES[i], sp));
    }
    (book, model)
}

// =================================================================================================
// operations

#[derive(Clone, Copy, Debug, PartialEq, Eq)]
pub enum Level {
    /// Worksheet::insert_new_row & co on sheet 0
    Sheet,
    /// Spreadsheet::insert_new_row & co naming sheet i
    Book(usize),
}

#[derive(Clone, Debug)]
pub enum Op {
    Ins { ax: Axis, level: Level, p: u32, n: u32 },
    Rem { ax: Axis, level: Level, p: u32, n: u32 },
    Move { src: Rect, dr: i32, dc: i32 },
    Copy { src: Rect, dr: i32, dc: i32 },
    Set { r: u32, c: u32 },
    Del { r: u32, c: u32 },
    /// insert(p,n) immediately followed by remove(p,n) (sheet-level, sheet 0): must be the identity
    Law { ax: Axis, p: u32, n: u32 },
}

impl Op {
    fn name(&self) -> String {
        match self {
            Op::Ins { ax, .. } => format!("insert-{}", ax.name()),
            Op::Rem { ax, .. } => format!("remove-{}", ax.name()),
            Op::Move { .. } => "move".into(),
            Op::Copy { .. } => "copy".into(),
            Op::Set { .. } => "set-cell".into(),
            Op::Del { .. } => "remove-cell".into(),
            Op::Law { ax, .. } => format!("law-{}", ax.name()),
        }
    }
    fn level(&self) -> Level {
        match self {
            Op::Ins { level, .. } | Op::Rem { level, .. } => *level,
            _ => Level::Sheet,
        }
    }
    fn level_tag(&self) -> &'static str {
        match self.level() {
            Level::Sheet => "sheet-level",
            Level::Book(_) => "wb-level",
        }
    }
    fn target(&self) -> usize {
        match self.level() {
            Level::Sheet => 0,
            Level::Book(i) => i,
        }
    }
    fn to_json(&self) -> Value {
        match self {
            Op::Ins { ax, level, p, n } | Op::Rem { ax, level, p, n } => {
                let call = match (self, ax) {
                    (Op::Ins { .. }, Axis::Row) => "insert_new_row",
                    (Op::Ins { .. }, Axis::Col) => "insert_new_column_by_index",
                    (_, Axis::Row) => "remove_row",
                    (_, Axis::Col) => "remove_column_by_index",
                };
                match level {
                    Level::Sheet => json!({"call": format!("Worksheet({})::{}", NAMES[0], call), "p": p, "n": n}),
                    Level::Book(i) => json!({"call": format!("Spreadsheet::{}", call), "sheet": NAMES[*i], "p": p, "n": n}),
                }
            }
            Op::Move { src, dr, dc } => json!({"call": "Worksheet(Sheet1)::move_range", "range": src.a1(), "row": dr, "column": dc}),
            Op::Copy { src, dr, dc } => json!({"call": "Worksheet(Sheet1)::copy_range", "range": src.a1(), "row": dr, "column": dc}),
            Op::Set { r, c } => json!({"call": "Worksheet(Sheet1)::set_cell", "cell": a1(*r, *c), "value": format!("Z{}", a1(*r, *c))}),
            Op::Del { r, c } => json!({"call": "Worksheet(Sheet1)::remove_cell", "cell": a1(*r, *c)}),
            Op::Law { ax, p, n } => json!({"call": format!("Worksheet(Sheet1)::insert then remove {}", ax.name()), "p": p, "n": n}),
        }
    }
}

fn apply_real(book: &mut Spreadsheet, op: &Op) {
    match op {
        Op::Ins { ax, level: Level::Sheet, p, n } => {
            let ws = book.get_sheet_mut(&0).unwrap();
            match ax {
                Axis::Row => ws.insert_new_row(p, n),
                Axis::Col => ws.insert_new_column_by_index(p, n),
            }
        }
        Op::Rem { ax, level: Level::Sheet, p, n } => {
            let ws = book.get_sheet_mut(&0).unwrap();
            match ax {
                Axis::Row => ws.remove_row(p, n),
                Axis::Col => ws.remove_column_by_index(p, n),
            }
        }
        Op::Ins { ax, level: Level::Book(i), p, n } => match ax {
            Axis::Row => book.insert_new_row(NAMES[*i], p, n),
            Axis::Col => book.insert_new_column_by_index(NAMES[*i], p, n),
        },
        Op::Rem { ax, level: Level::Book(i), p, n } => match ax {
            Axis::Row => book.remove_row(NAMES[*i], p, n),
            Axis::Col => book.remove_column_by_index(NAMES[*i], p, n),
        },
        Op::Move { src, dr, dc } => {
            book.get_sheet_mut(&0).unwrap().move_range(&src.a1(), dr, dc);
        }
        Op::Copy { src, dr, dc } => {
            book.get_sheet_mut(&0).unwrap().copy_range(&src.a1(), dr, dc);
        }
        Op::Set { r, c } => {
            let mut cell = Cell::default();
            cell.get_coordinate_mut().set_col_num(*c).set_row_num(*r);
            cell.set_value_string(format!("Z{}", a1(*r, *c)));
            book.get_sheet_mut(&0).unwrap().set_cell(cell);
        }
        Op::Del { r, c } => {
            book.get_sheet_mut(&0).unwrap().remove_cell((*c, *r));
        }
        Op::Law { ax, p, n } => {
            let ws = book.get_sheet_mut(&0).unwrap();
            match ax {
                Axis::Row => {
                    ws.insert_new_row(p, n);
                    ws.remove_row(p, n);
                }
                Axis::Col => {
                    ws.insert_new_column_by_index(p, n);
                    ws.remove_column_by_index(p, n);
                }
            }
        }
    }
}

fn apply_model_sheet(sh: &mut RefSheet, op: &Op) {
    match op {
        Op::Ins { ax, p, n, .. } => sh.insert(*ax, *p, *n),
        Op::Rem { ax, p, n, .. } => sh.remove(*ax, *p, *n),
        Op::Move { src, dr, dc } => sh.move_range(src, *dr, *dc),
        Op::Copy { src, dr, dc } => sh.copy_range(src, *dr, *dc),
        Op::Set { r, c } => {
            sh.cells.insert((*r, *c), RefCell { value: format!("Z{}", a1(*r, *c)), kind: "s".into(), formula: String::new(), style: STYLE_TAGS[0].into(), link: None });
        }
        Op::Del { r, c } => {
            sh.cells.remove(&(*r, *c));
        }
        Op::Law { .. } => {}
    }
}

// alphabets ---------------------------------------------------------------------------------------

fn in_range(src: &Rect, dr: i32, dc: i32) -> bool {
    src.r1 as i64 + dr as i64 >= 1 && src.c1 as i64 + dc as i64 >= 1 && src.r2 as i64 + dr as i64 <= MAXR as i64 && src.c2 as i64 + dc as i64 <= MAXC as i64
}

fn insrem(levels: &[Level], ps: &[u32], ns: &[u32]) -> Vec<Op> {
    let mut v = vec![];
    for level in levels {
        for &n in ns {
            for &p in ps {
                for ax in [Axis::Row, Axis::Col] {
                    v.push(Op::Ins { ax, level: *level, p, n });
                    v.push(Op::Rem { ax, level: *level, p, n });
                }
            }
        }
    }
    v
}

fn laws(pn: &[(u32, u32)]) -> Vec<Op> {
    let mut v = vec![];
    for &(p, n) in pn {
        for ax in [Axis::Row, Axis::Col] {
            v.push(Op::Law { ax, p, n });
        }
    }
    v
}

/// simplest first: cell edits, sheet-level structure edits, move/copy, workbook-level edits, laws
pub fn alphabet(name: &str) -> Vec<Op> {
    let all_levels = [Level::Sheet, Level::Book(0), Level::Book(1)];
    match name {
        "full" => {
            let mut v = vec![];
            for (r, c) in [(1, 1), (2, 2), (3, 3)] {
                v.push(Op::Set { r, c });
                v.push(Op::Del { r, c });
            }
            v.extend(insrem(&[Level::Sheet], &[1, 2, 3, 5], &[1, 2, 4]));
            for src in [rc("A1"), rc("A1:B2"), rc("B2:C3")] {
                for (dr, dc) in [(0, 1), (1, 0), (-1, 0), (0, -1), (1, 1), (2, 2)] {
                    if in_range(&src, dr, dc) {
                        v.push(Op::Move { src, dr, dc });
                        v.push(Op::Copy { src, dr, dc });
                    }
                }
            }
            v.extend(insrem(&[Level::Book(0), Level::Book(1)], &[1, 2, 3, 5], &[1, 2, 4]));
            v.extend(laws(&[(1, 1), (2, 2), (5, 4)]));
            v
        }
        "insrem" => {
            let mut v = insrem(&all_levels, &[1, 2, 3], &[1, 2]);
            v.extend(laws(&[(1, 1), (2, 2)]));
            v
        }
        "insrem24" => {
            let mut v = insrem(&[Level::Sheet], &[1, 2, 3], &[1, 2]);
            v.extend(laws(&[(2, 1)]));
            v
        }
        "unit4" => vec![
            Op::Ins { ax: Axis::Row, level: Level::Sheet, p: 2, n: 1 },
            Op::Rem { ax: Axis::Row, level: Level::Sheet, p: 1, n: 1 },
            Op::Ins { ax: Axis::Col, level: Level::Sheet, p: 2, n: 1 },
            Op::Rem { ax: Axis::Col, level: Level::Sheet, p: 1, n: 1 },
        ],
        _ => vec![],
    }
}

// =================================================================================================
// oracle

#[derive(Clone, Debug)]
struct Finding {
    clause: &'static str,
    symptom: String,
    kind: &'static str,
    align: &'static str,
    detail: String,
    /// extra tags (composites of other objects, qualifiers)
    more: Vec<String>,
}

fn align_remove(s: (u32, u32), p: u32, n: u32) -> &'static str {
    let (a, b) = s;
    let q = p + n - 1;
    if b < p {
        "band-after"
    } else if a > q {
        "band-before"
    } else if p <= a && b <= q {
        "band-covers-object"
    } else if a < p && b > q {
        "band-inside-object"
    } else if a < p {
        "band-partial-overlap-end"
    } else {
        "band-partial-overlap-start"
    }
}
fn align_insert(s: (u32, u32), p: u32) -> &'static str {
    if p <= s.0 {
        "band-before"
    } else if p <= s.1 {
        "band-inside-object"
    } else {
        "band-after"
    }
}

/// (axis, p, n, is_insert) of a structural edit
fn edit_of(op: &Op) -> Option<(Axis, u32, u32, bool)> {
    match op {
        Op::Ins { ax, p, n, .. } => Some((*ax, *p, *n, true)),
        Op::Rem { ax, p, n, .. } => Some((*ax, *p, *n, false)),
        _ => None,
    }
}
fn align_of(op: &Op, span: (u32, u32)) -> &'static str {
    match edit_of(op) {
        Some((_, p, _, true)) => align_insert(span, p),
        Some((_, p, n, false)) => align_remove(span, p, n),
        None => "n/a",
    }
}

/// every coordinate-bearing object of a model sheet as (kind, span on the edited axis)
fn objects_on_axis(sh: &RefSheet, ax: Axis) -> Vec<(&'static str, (u32, u32))> {
    let pick = |k: &(u32, u32)| match ax {
        Axis::Row => (k.0, k.0),
        Axis::Col => (k.1, k.1),
    };
    let mut v = vec![];
    for (k, c) in &sh.cells {
        v.push(("cell", pick(k)));
        if c.link.is_some() {
            v.push(("link", pick(k)));
        }
    }
    for k in sh.comments.keys() {
        v.push(("comment", pick(k)));
    }
    match ax {
        Axis::Row => {
            for k in sh.rows.keys() {
                v.push(("rowdim", (*k, *k)));
            }
        }
        Axis::Col => {
            for k in sh.cols.keys() {
                v.push(("coldim", (*k, *k)));
            }
        }
    }
    for m in &sh.merges {
        v.push(("merge", m.span(ax)));
    }
    for (_, rs) in &sh.cfs {
        for r in rs {
            v.push(("cf", r.span(ax)));
        }
    }
    if let Some(f) = &sh.filter {
        v.push(("filter", f.span(ax)));
    }
    v
}

/// composite tags "<op>/<kind>/<alignment>" of the objects of `sh` (optionally one kind only) + qualifiers
fn composites(op: &Op, sh: &RefSheet, aux: &[(&'static str, Rect)], only_kind: Option<&str>, prefix: &str) -> Vec<String> {
    let mut out = BTreeSet::new();
    if let Some((ax, p, n, is_ins)) = edit_of(op) {
        let name = op.name();
        let mut objs = objects_on_axis(sh, ax);
        for (k, r) in aux {
            objs.push((*k, r.span(ax)));
        }
        for (kind, span) in objs {
            if let Some(k) = only_kind {
                if k != kind {
                    continue;
                }
            }
            let al = align_of(op, span);
            // for a whole-transition event (panic: only_kind == None) only the alignments in which the band
            // cuts into the object are features worth naming; pure shifts are the default case
            let trivial = al == "band-after" || (only_kind.is_none() && (al == "band-before" || al == "band-inside-object"));
            if !trivial {
                out.insert(format!("{}{}/{}/{}", prefix, name, kind, al));
            }
        }
        // qualifier over ALL objects of the sheet: the insert pushes something over the grid limit
        if is_ins && objects_on_axis(sh, ax).iter().any(|(_, span)| span.1 >= p && span.1 as u64 + n as u64 > ax.limit() as u64) {
            out.insert(format!("{}near-grid-limit", prefix));
        }
    }
    out.into_iter().collect()
}

/// Tags of a panicking removal: "<op>/<kind>/<alignment>/near-origin" for every rectangle-like object (merge,
/// conditional-format range, filter, comment box) with an endpoint e on the edited axis lying inside the removed
/// band and within the first n lines (p <= e <= n), i.e. whose translation by -n would leave the sheet at the origin.
fn near_origin_tags(op: &Op, sh: &RefSheet, aux: &[(&'static str, Rect)], prefix: &str) -> Vec<String> {
    let mut out = BTreeSet::new();
    if let Some((ax, p, n, false)) = edit_of(op) {
        let name = op.name();
        let mut objs: Vec<(&'static str, (u32, u32))> = vec![];
        for m in &sh.merges {
            objs.push(("merge", m.span(ax)));
        }
        for (_, rs) in &sh.cfs {
            for r in rs {
                objs.push(("cf", r.span(ax)));
            }
        }
        if let Some(f) = &sh.filter {
            objs.push(("filter", f.span(ax)));
        }
        for (k, r) in aux {
            objs.push((*k, r.span(ax)));
        }
        for (kind, span) in objs {
            let hit = |e: u32| e >= p && e <= n;
            if hit(span.0) || hit(span.1) {
                if kind == "comment-anchor" {
                    // the box of a comment is not part of the model and may already be degenerate: no alignment class
                    out.insert(format!("{}{}/{}/near-origin", prefix, name, kind));
                } else {
                    out.insert(format!("{}{}/{}/{}/near-origin", prefix, name, kind, align_of(op, span)));
                }
            }
        }
    }
    out.into_iter().collect()
}

fn qualifiers(op: &Op) -> Vec<String> {
    let mut q = vec![];
    match op {
        Op::Ins { ax, p, .. } | Op::Rem { ax, p, .. } | Op::Law { ax, p, .. } => {
            if *p == 1 {
                q.push(format!("at-first-{}", ax.name()));
            }
        }
        _ => {}
    }
    q
}

fn cell_field_diff(a: &RefCell, b: &RefCell) -> (&'static str, &'static str) {
    // (symptom suffix, object kind)
    if a.formula != b.formula {
        ("formula-text-changed", "cell")
    } else if a.style != b.style {
        ("style-changed", "cell")
    } else if a.link != b.link {
        if b.link.is_none() {
            ("link-lost", "link")
        } else {
            ("link-changed", "link")
        }
    } else if a.kind != b.kind {
        ("kind-changed", "cell")
    } else {
        ("value-changed", "cell")
    }
}

/// Point objects (cells, comments, row/column settings): classify the differences between the expected map
/// (image of `pre` under `image`) and `got`.
fn diff_points<K: Ord + Copy + std::fmt::Debug, V: Eq + Clone + std::fmt::Debug>(
    clause: &'static str,
    kind: &'static str,
    pre: &BTreeMap<K, V>,
    got: &BTreeMap<K, V>,
    image: &dyn Fn(K) -> Option<K>,
    align: &dyn Fn(K) -> &'static str,
    field: &dyn Fn(&V, &V) -> (String, &'static str),
    out: &mut Vec<Finding>,
) {
    let mut claimed: BTreeSet<K> = BTreeSet::new();
    for (k, v) in pre {
        if let Some(ke) = image(*k) {
            if got.get(&ke) == Some(v) {
                claimed.insert(ke);
            }
        }
    }
    for (k, v) in pre {
        match image(*k) {
            Some(ke) => {
                if got.get(&ke) == Some(v) {
                    continue;
                }
                let found = got.iter().find(|(g, gv)| !claimed.contains(*g) && *gv == v).map(|(g, _)| *g);
                match found {
                    Some(g) if g == *k => {
                        claimed.insert(g);
                        out.push(Finding { clause, symptom: format!("{}-not-shifted", kind), kind, align: align(*k), detail: format!("{} at {:?} should be at {:?}, still at {:?}", kind, k, ke, g), more: vec![] });
                    }
                    Some(g) => {
                        claimed.insert(g);
                        out.push(Finding { clause, symptom: format!("{}-shifted-wrong", kind), kind, align: align(*k), detail: format!("{} at {:?} should be at {:?}, found at {:?}", kind, k, ke, g), more: vec![] });
                    }
                    None => match got.get(&ke) {
                        Some(gv) if !claimed.contains(&ke) => {
                            claimed.insert(ke);
                            let (sfx, k2) = field(v, gv);
                            out.push(Finding { clause, symptom: format!("{}-{}", kind, sfx), kind: k2, align: align(*k), detail: format!("{} {:?}->{:?}: expected {:?}, got {:?}", kind, k, ke, v, gv), more: vec![] });
                        }
                        _ => {
                            out.push(Finding { clause, symptom: format!("{}-lost", kind), kind, align: align(*k), detail: format!("{} at {:?} ({:?}) should be at {:?}, is nowhere", kind, k, v, ke), more: vec![] });
                        }
                    },
                }
            }
            None => {
                let found = got.iter().find(|(g, gv)| !claimed.contains(*g) && *gv == v).map(|(g, _)| *g);
                if let Some(g) = found {
                    claimed.insert(g);
                    out.push(Finding { clause, symptom: format!("{}-in-removed-band-kept", kind), kind, align: align(*k), detail: format!("{} at {:?} lay inside the removed band, still present at {:?}", kind, k, g), more: vec![] });
                }
            }
        }
    }
    for (g, gv) in got {
        if !claimed.contains(g) {
            let dup = pre.values().any(|v| v == gv);
            out.push(Finding { clause, symptom: format!("{}-{}", kind, if dup { "duplicated" } else { "unexpected" }), kind, align: "n/a", detail: format!("unexpected {} at {:?}: {:?}", kind, g, gv), more: vec![] });
        }
    }
}

/// Rectangle objects: (tag, rect) multisets.
fn diff_rects(clause: &'static str, kind: &'static str, pre: &[(String, Rect)], got: &[(String, Rect)], image: &dyn Fn(&Rect) -> Option<Rect>, align: &dyn Fn(&Rect) -> &'static str, out: &mut Vec<Finding>) {
    if pre.len() == got.len() {
        // the library adjusts its list in place: pair i-th with i-th (naming only)
        let mut findings = vec![];
        let mut ok = true;
        for (o, g) in pre.iter().zip(got.iter()) {
            if o.0 != g.0 {
                ok = false;
                break;
            }
            let al = align(&o.1);
            match image(&o.1) {
                Some(e) if e == g.1 => {}
                Some(e) => {
                    let sym = match al {
                        "band-before" => {
                            if g.1 == o.1 {
                                "not-shifted"
                            } else {
                                "shifted-wrong"
                            }
                        }
                        "band-inside-object" => "resize-wrong",
                        "band-partial-overlap-start" | "band-partial-overlap-end" => "partial-overlap-wrong",
                        "band-after" => "changed-outside-band",
                        _ => "changed-by-unrelated-op",
                    };
                    findings.push(Finding { clause, symptom: format!("{}-{}", kind, sym), kind, align: al, detail: format!("{} {} should become {}, got {}", kind, o.1.a1(), e.a1(), fmt_rect(&g.1)), more: vec![] });
                }
                None => findings.push(Finding { clause, symptom: format!("{}-in-removed-band-kept", kind), kind, align: al, detail: format!("{} {} lay entirely inside the removed band, still present as {}", kind, o.1.a1(), fmt_rect(&g.1)), more: vec![] }),
            }
        }
        if ok {
            out.extend(findings);
            return;
        }
    }
    let mut left: Vec<(String, Rect)> = got.to_vec();
    let mut wrong = vec![];
    let mut covered = vec![];
    for o in pre {
        match image(&o.1) {
            Some(e) => {
                if let Some(i) = left.iter().position(|x| x.0 == o.0 && x.1 == e) {
                    left.remove(i);
                } else {
                    wrong.push((o.clone(), e));
                }
            }
            None => covered.push(o.clone()),
        }
    }
    for (o, e) in wrong {
        let al = align(&o.1);
        if left.is_empty() {
            out.push(Finding { clause, symptom: format!("{}-lost", kind), kind, align: al, detail: format!("{} {} should become {}, is gone", kind, o.1.a1(), e.a1()), more: vec![] });
            continue;
        }
        let (i, unchanged) = match left.iter().position(|x| *x == o) {
            Some(i) => (i, true),
            None => (left.iter().position(|x| x.0 == o.0).unwrap_or(0), false),
        };
        let g = left.remove(i);
        let sym = match al {
            "band-before" => {
                if unchanged {
                    "not-shifted"
                } else {
                    "shifted-wrong"
                }
            }
            "band-inside-object" => "resize-wrong",
            "band-partial-overlap-start" | "band-partial-overlap-end" => "partial-overlap-wrong",
            "band-after" => "changed-outside-band",
            _ => "changed-by-unrelated-op",
        };
        out.push(Finding { clause, symptom: format!("{}-{}", kind, sym), kind, align: al, detail: format!("{} {} should become {}, got {}", kind, o.1.a1(), e.a1(), fmt_rect(&g.1)), more: vec![] });
    }
    for o in covered {
        if left.is_empty() {
            break;
        }
        let i = left.iter().position(|x| x.0 == o.0).unwrap_or(0);
        let g = left.remove(i);
        out.push(Finding { clause, symptom: format!("{}-in-removed-band-kept", kind), kind, align: align(&o.1), detail: format!("{} {} lay entirely inside the removed band, still present as {}", kind, o.1.a1(), fmt_rect(&g.1)), more: vec![] });
    }
    for g in left {
        out.push(Finding { clause, symptom: format!("{}-unexpected", kind), kind, align: "n/a", detail: format!("unexpected {} {}", kind, fmt_rect(&g.1)), more: vec![] });
    }
}

fn fmt_rect(r: &Rect) -> String {
    format!("{} (rows {}..{}, cols {}..{})", r.a1(), r.r1, r.r2, r.c1, r.c2)
}

fn tagged(v: &[Rect]) -> Vec<(String, Rect)> {
    v.iter().map(|r| (String::new(), *r)).collect()
}
fn cf_flat(v: &[(String, Vec<Rect>)]) -> Vec<(String, Rect)> {
    v.iter().flat_map(|(t, rs)| rs.iter().map(move |r| (t.clone(), *r))).collect()
}
fn comments_flat(m: &BTreeMap<(u32, u32), Vec<String>>) -> BTreeMap<(u32, u32), Vec<String>> {
    m.clone()
}

/// Differences of the non-cell parts when the operation must leave them alone.
fn diff_untouched_annotations(clause: &'static str, pre: &RefSheet, got: &RefSheet, out: &mut Vec<Finding>) {
    let sym = |k: &str| format!("{}-changed-by-cell-op", k);
    if pre.rows != got.rows {
        out.push(Finding { clause, symptom: sym("rowdim"), kind: "rowdim", align: "n/a", detail: format!("row settings {:?} -> {:?}", pre.rows, got.rows), more: vec![] });
    }
    if pre.cols != got.cols {
        out.push(Finding { clause, symptom: sym("coldim"), kind: "coldim", align: "n/a", detail: format!("column settings {:?} -> {:?}", pre.cols, got.cols), more: vec![] });
    }
    if pre.merges != got.merges {
        out.push(Finding { clause, symptom: sym("merge"), kind: "merge", align: "n/a", detail: format!("merges {:?} -> {:?}", pre.merges, got.merges), more: vec![] });
    }
    if pre.comments != got.comments {
        out.push(Finding { clause, symptom: sym("comment"), kind: "comment", align: "n/a", detail: format!("comments {:?} -> {:?}", pre.comments, got.comments), more: vec![] });
    }
    if pre.cfs != got.cfs {
        out.push(Finding { clause, symptom: sym("cf"), kind: "cf", align: "n/a", detail: format!("conditional formats {:?} -> {:?}", pre.cfs, got.cfs), more: vec![] });
    }
    if pre.filter != got.filter {
        out.push(Finding { clause, symptom: sym("filter"), kind: "filter", align: "n/a", detail: format!("filter {:?} -> {:?}", pre.filter, got.filter), more: vec![] });
    }
}

/// insert/remove on the target sheet
fn classify_relocation(op: &Op, pre: &RefSheet, got: &RefSheet, raw_merges: (&Vec<(String, Rect)>, &Vec<(String, Rect)>), raw_cfs: (&Vec<(String, Rect)>, &Vec<(String, Rect)>), out: &mut Vec<Finding>) {
    let (ax, p, n, is_ins) = edit_of(op).unwrap();
    let clause = "relocation";
    let key_image = |k: (u32, u32)| if is_ins { Some(ins_key(k, ax, p, n)) } else { rem_key(k, ax, p, n) };
    let key_align = |k: (u32, u32)| {
        let x = match ax {
            Axis::Row => k.0,
            Axis::Col => k.1,
        };
        align_of(op, (x, x))
    };
    let cell_field = |a: &RefCell, b: &RefCell| {
        let (s, k) = cell_field_diff(a, b);
        (s.to_string(), k)
    };
    diff_points(clause, "cell", &pre.cells, &got.cells, &key_image, &key_align, &cell_field, out);
    let comment_field = |_: &Vec<String>, _: &Vec<String>| ("text-changed".to_string(), "comment");
    diff_points(clause, "comment", &comments_flat(&pre.comments), &comments_flat(&got.comments), &key_image, &key_align, &comment_field, out);
    let dim_field = |_: &DimSet, _: &DimSet| ("changed".to_string(), "rowdim");
    let dim_field_c = |_: &DimSet, _: &DimSet| ("changed".to_string(), "coldim");
    let line_image = |k: u32| if is_ins { Some(ins_point(k, p, n)) } else { rem_point(k, p, n) };
    let line_align = |k: u32| align_of(op, (k, k));
    let ident = |k: u32| Some(k);
    let other_axis = |_: u32| "other-axis";
    match ax {
        Axis::Row => {
            diff_points(clause, "row-setting", &pre.rows, &got.rows, &line_image, &line_align, &dim_field, out);
            diff_points(clause, "col-setting", &pre.cols, &got.cols, &ident, &other_axis, &dim_field_c, out);
        }
        Axis::Col => {
            diff_points(clause, "col-setting", &pre.cols, &got.cols, &line_image, &line_align, &dim_field_c, out);
            diff_points(clause, "row-setting", &pre.rows, &got.rows, &ident, &other_axis, &dim_field, out);
        }
    }
    let rect_image = |r: &Rect| if is_ins { Some(ins_rect(r, ax, p, n)) } else { rem_rect(r, ax, p, n) };
    let rect_align = |r: &Rect| align_of(op, r.span(ax));
    diff_rects(clause, "merge", raw_merges.0, raw_merges.1, &rect_image, &rect_align, out);
    diff_rects(clause, "cf", raw_cfs.0, raw_cfs.1, &rect_image, &rect_align, out);
    let f0: Vec<Rect> = pre.filter.iter().cloned().collect();
    let f1: Vec<Rect> = got.filter.iter().cloned().collect();
    diff_rects(clause, "filter", &tagged(&f0), &tagged(&f1), &rect_image, &rect_align, out);
    // kinds used in tags: row-setting -> rowdim, col-setting -> coldim
    for f in out.iter_mut() {
        if f.kind == "row-setting" {
            f.kind = "rowdim";
        } else if f.kind == "col-setting" {
            f.kind = "coldim";
        }
    }
}

/// move / copy on sheet 0: classify per cell by region
fn classify_move_copy(op: &Op, pre: &RefSheet, exp: &RefSheet, got: &RefSheet, out: &mut Vec<Finding>) {
    let (src, dr, dc, is_move) = match op {
        Op::Move { src, dr, dc } => (*src, *dr, *dc, true),
        Op::Copy { src, dr, dc } => (*src, *dr, *dc, false),
        _ => return,
    };
    let clause = if is_move { "move" } else { "copy" };
    let dst = src.translated(dr, dc);
    let keys: BTreeSet<(u32, u32)> = exp.cells.keys().chain(got.cells.keys()).cloned().collect();
    for k in keys {
        let e = exp.cells.get(&k);
        let g = got.cells.get(&k);
        if e == g {
            continue;
        }
        let in_src = src.contains(k.0, k.1);
        let in_dst = dst.contains(k.0, k.1);
        // is k the image of a source cell?
        let from = ((k.0 as i64 - dr as i64), (k.1 as i64 - dc as i64));
        let is_image = in_dst && from.0 >= 1 && from.1 >= 1 && pre.cells.contains_key(&(from.0 as u32, from.1 as u32));
        let sym: String = if is_image {
            match (e, g) {
                (Some(_), None) => format!("{}-destination-missing", clause),
                (Some(a), Some(b)) => format!("{}-content-changed:{}", clause, cell_field_diff(a, b).0),
                _ => format!("{}-destination-unexpected", clause),
            }
        } else if in_dst {
            if is_move {
                "move-destination-not-cleared".to_string()
            } else {
                // the source position was blank: the destination must keep what it had
                "copy-blank-erased-destination".to_string()
            }
        } else if in_src {
            if is_move {
                "move-source-not-empty".to_string()
            } else {
                "copy-source-changed".to_string()
            }
        } else {
            format!("{}-touched-outside", clause)
        };
        out.push(Finding { clause, symptom: sym, kind: "cell", align: "n/a", detail: format!("{}: expected {:?}, got {:?}", a1(k.0, k.1), e, g), more: vec![] });
    }
    diff_untouched_annotations(clause, pre, got, out);
}

fn move_copy_tags(op: &Op, pre: &RefSheet) -> Vec<String> {
    let (src, dr, dc) = match op {
        Op::Move { src, dr, dc } | Op::Copy { src, dr, dc } => (*src, *dr, *dc),
        _ => return vec![],
    };
    let dst = src.translated(dr, dc);
    let overlap = !(dst.r1 > src.r2 || dst.r2 < src.r1 || dst.c1 > src.c2 || dst.c2 < src.c1);
    let n_src = pre.cells.keys().filter(|k| src.contains(k.0, k.1)).count() as u32;
    let area = (src.r2 - src.r1 + 1) * (src.c2 - src.c1 + 1);
    let dst_occupied = pre.cells.keys().any(|k| dst.contains(k.0, k.1) && !src.contains(k.0, k.1));
    let mut t = vec![];
    t.push(if overlap { "src-dst-overlap" } else { "src-dst-disjoint" }.to_string());
    t.push(if area == 1 { "single-cell-range" } else { "block-range" }.to_string());
    t.push(if n_src == 0 { "src-empty" } else if n_src < area { "src-partly-blank" } else { "src-full" }.to_string());
    if dst_occupied {
        t.push("dst-occupied".to_string());
    }
    t
}

fn first_diff_kind(a: &RefSheet, b: &RefSheet) -> &'static str {
    if a.cells != b.cells {
        "cell"
    } else if a.rows != b.rows {
        "rowdim"
    } else if a.cols != b.cols {
        "coldim"
    } else if a.merges != b.merges {
        "merge"
    } else if a.comments != b.comments {
        "comment"
    } else if a.cfs != b.cfs {
        "cf"
    } else if a.filter != b.filter {
        "filter"
    } else {
        "none"
    }
}

fn sheet_diff_text(exp: &RefSheet, got: &RefSheet) -> String {
    let mut s = String::new();
    let keys: BTreeSet<(u32, u32)> = exp.cells.keys().chain(got.cells.keys()).cloned().collect();
    let mut n = 0;
    for k in keys {
        if exp.cells.get(&k) != got.cells.get(&k) && n < 4 {
            s.push_str(&format!("cell {}: expected {:?}, got {:?}; ", a1(k.0, k.1), exp.cells.get(&k).map(|c| (&c.value, &c.formula)), got.cells.get(&k).map(|c| (&c.value, &c.formula))));
            n += 1;
        }
    }
    if exp.rows != got.rows {
        s.push_str(&format!("row settings: expected rows {:?}, got {:?}; ", exp.rows.keys().collect::<Vec<_>>(), got.rows.keys().collect::<Vec<_>>()));
    }
    if exp.cols != got.cols {
        s.push_str(&format!("column settings: expected cols {:?}, got {:?}; ", exp.cols.keys().collect::<Vec<_>>(), got.cols.keys().collect::<Vec<_>>()));
    }
    if exp.merges != got.merges {
        s.push_str(&format!("merges: expected {:?}, got {:?}; ", exp.merges.iter().map(|r| r.a1()).collect::<Vec<_>>(), got.merges.iter().map(fmt_rect).collect::<Vec<_>>()));
    }
    if exp.comments != got.comments {
        s.push_str(&format!("comments: expected {:?}, got {:?}; ", exp.comments.keys().map(|k| a1(k.0, k.1)).collect::<Vec<_>>(), got.comments.keys().map(|k| a1(k.0, k.1)).collect::<Vec<_>>()));
    }
    if exp.cfs != got.cfs {
        s.push_str(&format!("cf: expected {:?}, got {:?}; ", exp.cfs, got.cfs));
    }
    if exp.filter != got.filter {
        s.push_str(&format!("filter: expected {:?}, got {:?}; ", exp.filter.map(|r| r.a1()), got.filter.map(|r| fmt_rect(&r))));
    }
    s
}

// =================================================================================================
// the machine

#[derive(Clone)]
pub struct Node {
    book: Spreadsheet,
    /// reference model (equal to the view of the real object after every transition: re-synchronised on divergence)
    model: RefBook,
    key: u128,
    /// in-grid problems already present in this state: (sheet, symptom, kind)
    grid: BTreeSet<(usize, &'static str, &'static str)>,
    /// per sheet: merges / conditional-format rectangles in library order, auxiliary objects (comment boxes)
    raw: Vec<(Vec<(String, Rect)>, Vec<(String, Rect)>, Vec<(&'static str, Rect)>)>,
}

pub struct C07Machine {
    ops: Vec<Op>,
    resyncs: StdCell<u64>,
    suppressed: StdCell<u64>,
    law_checks: StdCell<u64>,
    pruned: StdCell<u64>,
    emitted: StdRefCell<BTreeMap<(String, String, Vec<String>), u32>>,
}

impl C07Machine {
    pub fn new(alpha: &str) -> C07Machine {
        C07Machine { ops: alphabet(alpha), resyncs: StdCell::new(0), suppressed: StdCell::new(0), law_checks: StdCell::new(0), pruned: StdCell::new(0), emitted: StdRefCell::new(BTreeMap::new()) }
    }

    pub fn init(&self, seed: usize) -> Node {
        let (book, model) = build_seed(seed);
        let dumps: Vec<SheetDump> = book.get_sheet_collection_no_check().iter().map(dump_sheet).collect();
        let key = state_key(&dumps);
        let mut grid = BTreeSet::new();
        for (i, d) in dumps.iter().enumerate() {
            for (s, k) in grid_problems(&d.coords) {
                grid.insert((i, s, k));
            }
        }
        let raw = dumps.iter().map(|d| (d.raw_merges.clone(), d.raw_cfs.clone(), d.aux.clone())).collect();
        Node { book, model, key, grid, raw }
    }

    fn emit(&self, out: &mut Vec<Violation>, op: &Op, f: Finding) {
        let mut tags: Vec<String> = vec![op.name(), op.level_tag().to_string(), f.kind.to_string()];
        if f.align != "n/a" {
            tags.push(f.align.to_string());
            tags.push(format!("{}/{}/{}", op.name(), f.kind, f.align));
        }
        for q in qualifiers(op) {
            tags.push(q);
        }
        for m in f.more {
            if !tags.contains(&m) {
                tags.push(m);
            }
        }
        let class = (f.clause.to_string(), f.symptom.clone(), tags.clone());
        let mut em = self.emitted.borrow_mut();
        let c = em.entry(class).or_insert(0);
        if *c >= KEEP_PER_CLASS_PER_CASE {
            self.suppressed.set(self.suppressed.get() + 1);
            return;
        }
        *c += 1;
        out.push(Violation { clause: f.clause.to_string(), symptom: f.symptom, tags, case: Value::Null, detail: f.detail });
    }
}

fn state_key(dumps: &[SheetDump]) -> u128 {
    let mut s = String::new();
    for d in dumps {
        s.push_str(&format!("{:?}|{}||", d.view, d.extra));
    }
    key_of(&s)
}

impl Machine for C07Machine {
    type S = Node;
    type Op = Op;

    fn ops(&self, _s: &Node, _depth: usize) -> Vec<Op> {
        self.ops.clone()
    }
    fn op_json(&self, op: &Op) -> Value {
        op.to_json()
    }
    fn key(&self, s: &Node) -> u128 {
        s.key
    }

    fn step(&self, s: &Node, op: &Op, out: &mut Vec<Violation>) -> Option<Node> {
        let t = op.target();
        let nsheets = s.model.len();
        let wb = matches!(op.level(), Level::Book(_));
        // ---- the implementation
        let mut book = s.book.clone();
        let r = std::panic::catch_unwind(std::panic::AssertUnwindSafe(|| apply_real(&mut book, op)));
        if let Err(e) = r {
            let msg = panic_msg(&e);
            let mut more = near_origin_tags(op, &s.model[t], &s.raw[t].2, "");
            if wb {
                for i in 0..nsheets {
                    if i != t {
                        more.extend(near_origin_tags(op, &s.model[i], &s.raw[i].2, "other-sheet:"));
                    }
                }
            }
            if matches!(op, Op::Move { .. } | Op::Copy { .. }) {
                more.extend(move_copy_tags(op, &s.model[t]));
            }
            self.emit(out, op, Finding { clause: "no-panic", symptom: format!("panic:{}", panic_class(&msg)), kind: "any", align: "n/a", detail: format!("{} panicked: {}", op.to_json(), msg), more });
            return None;
        }
        // ---- the reference
        let mut exp = s.model.clone();
        apply_model_sheet(&mut exp[t], op);
        if matches!(op, Op::Law { .. }) {
            self.law_checks.set(self.law_checks.get() + 1);
        }
        // ---- observe
        let dumps: Vec<SheetDump> = book.get_sheet_collection_no_check().iter().map(dump_sheet).collect();
        let mut diverged = dumps.len() != nsheets;
        if diverged {
            self.emit(out, op, Finding { clause: "other-sheets-untouched", symptom: "sheet-count-changed".into(), kind: "sheet", align: "n/a", detail: format!("{} sheets -> {}", nsheets, dumps.len()), more: vec![] });
            return None;
        }
        // other sheets untouched
        for i in 0..nsheets {
            if i == t {
                continue;
            }
            let got = &dumps[i].view;
            if *got != exp[i] {
                diverged = true;
                // signature of "the edit was applied to this sheet as well": its point objects equal the image under the same edit
                let mut like = s.model[i].clone();
                apply_model_sheet(&mut like, op);
                let same_points = like.cells == got.cells && like.comments == got.comments && like.rows == got.rows && like.cols == got.cols;
                let sym = if edit_of(op).is_some() && same_points { "other-sheet-shifted-like-target" } else { "other-sheet-modified" };
                self.emit(
                    out,
                    op,
                    Finding {
                        clause: "other-sheets-untouched",
                        symptom: sym.into(),
                        kind: "other-sheet",
                        align: "n/a",
                        detail: format!("{} on {} changed {}: {}", op.to_json(), NAMES[t], NAMES[i], sheet_diff_text(&exp[i], got)),
                        more: vec![],
                    },
                );
            }
        }
        // target sheet
        {
            let got = &dumps[t].view;
            if *got != exp[t] {
                diverged = true;
                let mut fs: Vec<Finding> = vec![];
                match op {
                    Op::Ins { .. } | Op::Rem { .. } => classify_relocation(op, &s.model[t], got, (&s.raw[t].0, &dumps[t].raw_merges), (&s.raw[t].1, &dumps[t].raw_cfs), &mut fs),
                    Op::Move { .. } | Op::Copy { .. } => {
                        classify_move_copy(op, &s.model[t], &exp[t], got, &mut fs);
                        let extra = move_copy_tags(op, &s.model[t]);
                        for f in fs.iter_mut() {
                            f.more.extend(extra.clone());
                        }
                    }
                    Op::Set { .. } | Op::Del { .. } => {
                        fs.push(Finding { clause: "cell-edit", symptom: format!("{}-wrong:{}", op.name(), first_diff_kind(&exp[t], got)), kind: first_diff_kind(&exp[t], got), align: "n/a", detail: sheet_diff_text(&exp[t], got), more: vec![] });
                    }
                    Op::Law { .. } => {
                        let k = first_diff_kind(&exp[t], got);
                        fs.push(Finding { clause: "undo-law", symptom: format!("insert-remove-not-identity:{}", k), kind: k, align: "n/a", detail: format!("remove(p,n) after insert(p,n) changed the sheet: {}", sheet_diff_text(&exp[t], got)), more: vec![] });
                    }
                }
                if fs.is_empty() {
                    fs.push(Finding { clause: "relocation", symptom: format!("unclassified-difference:{}", first_diff_kind(&exp[t], got)), kind: first_diff_kind(&exp[t], got), align: "n/a", detail: sheet_diff_text(&exp[t], got), more: vec![] });
                }
                // one violation per (symptom, kind, alignment) of this transition
                let mut seen: BTreeSet<(String, &'static str, &'static str)> = BTreeSet::new();
                for f in fs {
                    if seen.insert((f.symptom.clone(), f.kind, f.align)) {
                        let mut f = f;
                        f.detail = format!("{} on {}: {}", op.to_json(), NAMES[t], f.detail);
                        self.emit(out, op, f);
                    }
                }
            }
        }
        // coherence of the object itself + in-grid
        let mut grid = BTreeSet::new();
        for (i, d) in dumps.iter().enumerate() {
            for (sym, kind, detail) in &d.anomalies {
                self.emit(out, op, Finding { clause: "relocation", symptom: sym.to_string(), kind, align: "n/a", detail: format!("{} on {}: {}: {}", op.to_json(), NAMES[t], NAMES[i], detail), more: vec![] });
            }
            for (sym, kind) in grid_problems(&d.coords) {
                grid.insert((i, sym, kind));
                if !s.grid.contains(&(i, sym, kind)) {
                    let prefix = if i == t { "" } else { "other-sheet:" };
                    let model_kind = kind;
                    let more = composites(op, &s.model[i], &[], Some(model_kind), prefix);
                    let offenders: Vec<String> = d
                        .coords
                        .iter()
                        .filter(|(k, r)| *k == kind && grid_problems(&[(*k, *r)]).iter().any(|(s2, _)| *s2 == sym))
                        .take(3)
                        .map(|(_, r)| fmt_rect(r))
                        .collect();
                    self.emit(
                        out,
                        op,
                        Finding { clause: "in-grid", symptom: sym.to_string(), kind, align: "n/a", detail: format!("{} on {}: {} of {} now has coordinates outside 1..16384 x 1..1048576 or start>end: {:?}", op.to_json(), NAMES[t], kind, NAMES[i], offenders), more },
                    );
                }
            }
        }
        // a state holding a rectangle with row/column 0 or start after end is outside the domain of the property
        // (and of the model: such a "rectangle" is not a set of cells): reported above, not expanded further
        if grid.iter().any(|(_, sym, _)| *sym != "beyond-grid") {
            self.pruned.set(self.pruned.get() + 1);
            return None;
        }
        // ---- successor: continue from the real object; the model follows the real object after a divergence
        let model: RefBook = if diverged {
            self.resyncs.set(self.resyncs.get() + 1);
            dumps.iter().map(|d| d.view.clone()).collect()
        } else {
            exp
        };
        let key = state_key(&dumps);
        let raw = dumps.iter().map(|d| (d.raw_merges.clone(), d.raw_cfs.clone(), d.aux.clone())).collect();
        Some(Node { book, model, key, grid, raw })
    }
}

// =================================================================================================
// pool spaces: one case = (seed, first operation)

pub struct Hist {
    alpha: &'static str,
    depth: usize,
    max_states: u64,
    nops: usize,
}
impl Hist {
    fn new(alpha: &'static str, depth: usize, max_states: u64) -> Hist {
        Hist { alpha, depth, max_states, nops: alphabet(alpha).len() }
    }
    fn split(&self, i: u64) -> (usize, usize) {
        ((i / self.nops as u64) as usize, (i % self.nops as u64) as usize)
    }
}
impl Space for Hist {
    fn len(&self) -> u64 {
        (SEED_NAMES.len() * self.nops) as u64
    }
    fn describe(&self, i: u64) -> Value {
        let (seed, first) = self.split(i);
        json!({"seed": SEED_NAMES[seed], "first_op": alphabet(self.alpha)[first].to_json(), "alphabet": self.alpha, "depth": self.depth})
    }
    fn tags(&self, i: u64) -> Vec<String> {
        let (_, first) = self.split(i);
        let op = &alphabet(self.alpha)[first];
        vec![op.name(), op.level_tag().to_string()]
    }
    fn run(&self, i: u64, sink: &mut Sink) {
        let (seed, first) = self.split(i);
        let m = C07Machine::new(self.alpha);
        let init = m.init(seed);
        let st = bfs(&m, init, json!({"seed": SEED_NAMES[seed], "alphabet": self.alpha}), Some(first), self.depth, self.max_states, sink);
        sink.count("resyncs", m.resyncs.get());
        sink.count("law_checks", m.law_checks.get());
        sink.count("successors_not_expanded_row0_col0_or_inverted_rect", m.pruned.get());
        sink.count("violations_beyond_per_case_class_cap", m.suppressed.get());
        if sink.sample_this {
            sink.samples.push(json!({"case": self.describe(i), "states": st.states, "transitions": st.transitions, "per_depth": st.per_depth}));
        }
    }
}

fn space_cfg(tier: Tier, id: &str) -> Option<Hist> {
    match (tier, id) {
        (Tier::Quick, "full-d2") => Some(Hist::new("full", 2, 200_000)),
        (Tier::Quick, "insrem-d3") => Some(Hist::new("insrem", 3, 200_000)),
        (Tier::Thorough, "full-d3") => Some(Hist::new("full", 3, 400_000)),
        (Tier::Thorough, "insrem24-d5") => Some(Hist::new("insrem24", 5, 600_000)),
        (Tier::Thorough, "unit4-d10") => Some(Hist::new("unit4", 10, 600_000)),
        _ => None,
    }
}

pub fn space(tier: Tier, id: &str) -> Option<Box<dyn Space>> {
    space_cfg(tier, id).map(|h| Box::new(h) as Box<dyn Space>)
}

fn replay(tier: Tier, case: &Value) -> Vec<Violation> {
    let id = case["_space"].as_str().unwrap_or("");
    let h = match space_cfg(tier, id).or_else(|| space_cfg(Tier::Quick, id)).or_else(|| space_cfg(Tier::Thorough, id)) {
        Some(h) => h,
        None => {
            eprintln!("replay: unknown space {:?}", id);
            return vec![];
        }
    };
    let seed = SEED_NAMES.iter().position(|s| Some(*s) == case["init"]["seed"].as_str()).unwrap_or(0);
    let ipath: Vec<u32> = case["ipath"].as_array().map(|a| a.iter().filter_map(|x| x.as_u64().map(|y| y as u32)).collect()).unwrap_or_default();
    let m = C07Machine::new(h.alpha);
    let init = m.init(seed);
    let all = replay_path(&m, init, &ipath);
    // only the last step is the recorded transition (earlier steps were reported by their own cases)
    let n = ipath.len();
    all.into_iter().filter(|v| v.case["path"].as_array().map(|p| p.len()) == Some(n)).collect()
}

/// machinery self-checks (never a verdict): closed forms of the model vs literal set semantics, and
/// dump(seed built through the library's setters) == hand-built model of the same seed.
fn self_checks() -> Result<(), String> {
    refgrid::self_check()?;
    for seed in 0..SEED_NAMES.len() {
        let (book, model) = build_seed(seed);
        for (i, ws) in book.get_sheet_collection_no_check().iter().enumerate() {
            let d = dump_sheet(ws);
            if d.view != model[i] {
                return Err(format!("seed {} sheet {}: dump of the freshly built object differs from the hand-built model: {}", SEED_NAMES[seed], i, sheet_diff_text(&model[i], &d.view)));
            }
            if !d.anomalies.is_empty() {
                return Err(format!("seed {} sheet {}: {:?}", SEED_NAMES[seed], i, d.anomalies));
            }
        }
    }
    Ok(())
}

fn run(ctx: &Ctx) -> i32 {
    quiet_panics();
    let sc = std::panic::catch_unwind(self_checks);
    match sc {
        Ok(Ok(())) => {}
        Ok(Err(e)) => {
            eprintln!("MACHINERY: C07 self-check failed: {}", e);
            return 2;
        }
        Err(e) => {
            eprintln!("MACHINERY: C07 self-check panicked: {}", panic_msg(&e));
            return 2;
        }
    }
    let thorough = ctx.tier == Tier::Thorough;
    let ids: Vec<&'static str> = if thorough { vec!["full-d3", "insrem24-d5", "unit4-d10"] } else { vec!["full-d2", "insrem-d3"] };
    let spaces: Vec<(&'static str, Box<dyn Space>)> = ids.iter().map(|id| (*id, space(ctx.tier, id).unwrap())).collect();
    let alpha_json = |n: &str| json!(alphabet(n).iter().map(|o| o.to_json()).collect::<Vec<_>>());
    let sizes = json!({"full": alphabet("full").len(), "insrem": alphabet("insrem").len(), "insrem24": alphabet("insrem24").len(), "unit4": alphabet("unit4").len()});
    run_e1(
        ctx,
        E1Spec {
            spaces,
            cfg: PoolCfg { chunk: if thorough { 1 } else { 4 }, case_timeout: std::time::Duration::from_secs(60), keep_per_class: 2, ..Default::default() },
            level: "model_checking",
            rule: "breadth-first enumeration of ALL operation histories up to the stated depth over the stated alphabet from each of 4 seeded two-sheet workbooks; one pool case = (seed, first operation); nodes carry the real Spreadsheet cloned from the parent; two nodes are merged iff the full positional dump of both sheets (cells with own coordinates incl. blank ones, row table, column table, merges, comments, conditional-format ranges, filter) is equal; every transition is compared with the reference grid stepped in lock-step (all sheets), checked for panics and for coordinates outside the grid; 'law' operations (insert(p,n) then remove(p,n) must be the identity) are part of the alphabet, i.e. evaluated on every expanded state. states = distinct state keys per space (summed over spaces); after a divergence the model is re-synchronised to the real object (counter resyncs)".into(),
            alphabets: json!({"sizes": sizes, "seeds": SEED_NAMES, "full": alpha_json("full"), "insrem": "Worksheet- and Spreadsheet-level (Sheet1, Sheet2) insert/remove row/column, p in {1,2,3}, n in {1,2} + 4 law ops", "insrem24": "Worksheet-level insert/remove row/column, p in {1,2,3}, n in {1,2} + 2 law ops (p=2,n=1)", "unit4": alpha_json("unit4")}),
            bounds: if thorough {
                json!({"full-d3": "depth 3, full alphabet, 4 seeds", "insrem24-d5": "depth 5, 26-op sheet-level insert/remove alphabet, 4 seeds", "unit4-d10": "depth 10, 4-op unit alphabet, 4 seeds"})
            } else {
                json!({"full-d2": "depth 2, full alphabet, 4 seeds", "insrem-d3": "depth 3, 76-op insert/remove alphabet (sheet-level + workbook-level for both sheets, p<=3, n<=2), 4 seeds"})
            },
            exhaustive: true,
            caps_hit: vec![],
            assumptions: vec![
                "formulas in the explored workbooks are reference-free (1+1, PI()): any change of formula text is a violation here; reference rewriting is C08".into(),
                "move_range/copy_range arguments are restricted to in-range destinations; insert/remove use n >= 1".into(),
                "a rectangle (merge, conditional-format range, filter) is a set of cells: after a removal it is the bounding box of its survivors, or disappears when none survives".into(),
                "the harness is built with overflow-checks=on, so an unsigned underflow inside the library surfaces as a panic (clause no-panic) instead of a wrapped coordinate".into(),
                "row/column table entries that carry no setting (created as a side effect of cell creation) are not compared with the model, only included in the state key and in the in-grid clause".into(),
            ],
            min_distinct: 1000,
        },
    )
}
