//! Workbook feature builders through the PUBLIC API (shared by C02, C04, C05, C06, C11).
//! Every builder is deterministic; strings are parameters so that the escape-channel products can reuse them.
use umya_spreadsheet::*;

pub fn style_bold_red() -> Style {
    let mut s = Style::default();
    s.get_font_mut().set_bold(true);
    s.get_font_mut().get_color_mut().set_argb("FFFF0000");
    s
}
pub fn style_fill_numfmt() -> Style {
    let mut s = Style::default();
    s.set_background_color("FFFFFF00");
    s.get_numbering_format_mut().set_format_code("0.00");
    s
}
pub fn style_border_align() -> Style {
    let mut s = Style::default();
    s.get_borders_mut().get_bottom_mut().set_border_style("thin");
    s.get_alignment_mut().set_wrap_text(true);
    s.get_alignment_mut().set_horizontal(HorizontalAlignmentValues::Center);
    s
}

/// Plain content every generated sheet gets (text, numbers, bool, formula, one duplicate string).
pub fn add_base_cells(ws: &mut Worksheet, salt: &str) {
    ws.get_cell_mut("A1").set_value_string(format!("head {}", salt));
    ws.get_cell_mut("B1").set_value_number(1.5);
    ws.get_cell_mut("C1").set_value_bool(true);
    ws.get_cell_mut("A2").set_value_string("dup");
    ws.get_cell_mut("B2").set_value_string("dup");
    ws.get_cell_mut("C2").set_value_number(-3);
    ws.get_cell_mut("D2").set_formula("B1+C2");
    ws.get_cell_mut("A3").set_value_string(" padded ");
    ws.get_cell_mut("D1").set_value("#N/A"); // error literal
    // a plain and a rich string with the same display text (interning must keep them apart)
    ws.get_cell_mut("A4").set_value_string("Total");
    let mut rt = RichText::default();
    let mut e1 = TextElement::default();
    e1.set_text("To");
    e1.get_run_properties_mut().set_bold(true);
    let mut e2 = TextElement::default();
    e2.set_text("tal");
    rt.add_rich_text_elements(e1);
    rt.add_rich_text_elements(e2);
    ws.get_cell_mut("B4").set_rich_text(rt);
}

pub fn add_styles(ws: &mut Worksheet) {
    ws.get_cell_mut("B1").set_style(style_bold_red());
    ws.get_cell_mut("C2").set_style(style_fill_numfmt());
    ws.get_cell_mut("E5").set_style(style_border_align()); // styled empty cell
    ws.get_cell_mut("A3").set_style(style_bold_red()); // same style twice
    // two CUSTOM number formats (ids beyond the built-in ones), the second used twice
    for (addr, code) in [("B2", "0.000\" kg\""), ("C1", "0.0\" m\""), ("D2", "0.0\" m\"")] {
        ws.get_cell_mut(addr).get_style_mut().get_numbering_format_mut().set_format_code(code);
    }
    ws.get_row_dimension_mut(&4).set_height(30.0);
    ws.get_column_dimension_mut("C").set_width(20.0);
}

/// The numbers lo..=hi in a fixed scrambled order: annotations are ADDED in this order, so that insertion order,
/// row-major order, column-major order and the order of the A1 strings all differ.
pub fn scrambled(lo: u32, hi: u32) -> Vec<u32> {
    let mut v: Vec<u32> = (lo..=hi).collect();
    v.sort_by_key(|i| ((i * 37 + 11) % 101, *i));
    v
}

/// `n` external hyperlinks on cells of column G (each with its own target).
pub fn add_ext_links(ws: &mut Worksheet, n: u32, url_of: &dyn Fn(u32) -> String) {
    for i in scrambled(1, n) {
        let c = ws.get_cell_mut((7u32, i));
        c.set_value_string(format!("link{}", i));
        let mut h = Hyperlink::default();
        h.set_url(url_of(i));
        c.set_hyperlink(h);
    }
}
pub fn default_url(i: u32) -> String {
    format!("https://example.com/page{}?x={}", i, i * 7)
}

/// `n` internal (location) hyperlinks on cells of column H.
pub fn add_int_links(ws: &mut Worksheet, n: u32, loc_of: &dyn Fn(u32) -> String) {
    for i in scrambled(1, n) {
        let c = ws.get_cell_mut((8u32, i));
        c.set_value_string(format!("jump{}", i));
        let mut h = Hyperlink::default();
        h.set_url(loc_of(i));
        h.set_location(true);
        c.set_hyperlink(h);
    }
}
pub fn default_loc(i: u32) -> String {
    format!("Sheet1!A{}", i)
}

pub fn add_comments(ws: &mut Worksheet, n: u32, author_of: &dyn Fn(u32) -> String, text_of: &dyn Fn(u32) -> String) {
    for i in scrambled(1, n) {
        let mut c = Comment::default();
        c.new_comment((10u32, i)); // column J
        c.set_author(author_of(i));
        c.set_text_string(text_of(i));
        ws.add_comments(c);
    }
}

pub fn add_merges(ws: &mut Worksheet, n: u32) {
    for i in if n == 0 { vec![] } else { scrambled(0, n - 1) } {
        let r = 20 + i * 3;
        ws.add_merge_cells(format!("A{}:B{}", r, r + 1));
    }
}

pub fn add_validations(ws: &mut Worksheet, n: u32, prompt: &str, f1: &str) {
    let mut dvs = DataValidations::default();
    for i in 0..n {
        let mut dv = DataValidation::default();
        dv.set_type(if i % 2 == 0 { DataValidationValues::List } else { DataValidationValues::Whole });
        dv.set_formula1(if i % 2 == 0 { f1.to_string() } else { "1".to_string() });
        if i % 2 == 1 {
            dv.set_formula2("10");
            dv.set_operator(DataValidationOperatorValues::Between);
        }
        dv.set_allow_blank(true);
        dv.set_show_input_message(true);
        dv.set_prompt_title(format!("T{}", i));
        dv.set_prompt(prompt);
        let mut seq = SequenceOfReferences::default();
        seq.set_sqref(format!("L{}", i + 1));
        dv.set_sequence_of_references(seq);
        dvs.add_data_validation_list(dv);
    }
    if n > 0 {
        ws.set_data_validations(dvs);
    }
}

pub fn add_cond_formats(ws: &mut Worksheet, n: u32, formula: &str) {
    let mut list = vec![];
    for i in 0..n {
        let mut style = Style::default();
        if i % 3 == 1 {
            // a rule with an EMPTY differential format (neither font nor fill nor border): still an entry of the dxf
            // table that later rules count past.  (A number-format-only rule would be the natural example, but the
            // library's differential-format model has no number format at all - outside what C06 pins.)
        } else {
            style.set_background_color(if i % 2 == 0 { "FFFF0000" } else { "FF00FF00" });
        }
        let mut form = Formula::default();
        form.set_string_value(formula);
        let mut rule = ConditionalFormattingRule::default();
        rule.set_type(ConditionalFormatValues::CellIs).set_operator(ConditionalFormattingOperatorValues::GreaterThan).set_priority(i as i32 + 1).set_style(style).set_formula(form);
        let mut seq = SequenceOfReferences::default();
        seq.set_sqref(format!("N{}:N{}", i * 2 + 1, i * 2 + 2));
        let mut cf = ConditionalFormatting::default();
        cf.set_sequence_of_references(seq);
        cf.set_conditional_collection(vec![rule]);
        list.push(cf);
    }
    if n > 0 {
        ws.set_conditional_formatting_collection(list);
    }
}

pub fn add_table(ws: &mut Worksheet, name: &str, cols: [&str; 2]) {
    ws.get_cell_mut("P1").set_value_string(cols[0]);
    ws.get_cell_mut("Q1").set_value_string(cols[1]);
    ws.get_cell_mut("P2").set_value_number(1);
    ws.get_cell_mut("Q2").set_value_number(2);
    let mut t = Table::new(name, ("P1", "Q2"));
    t.add_column(TableColumn::new(cols[0]));
    t.add_column(TableColumn::new(cols[1]));
    ws.add_table(t);
}

pub fn add_sheet_protection(ws: &mut Worksheet) {
    let p = ws.get_sheet_protection_mut();
    p.set_sheet(true);
    p.set_format_cells(true);
    p.set_algorithm_name("SHA-512");
    p.set_salt_value("c2FsdHNhbHRzYWx0c2FsdA==");
    p.set_spin_count(1000);
    p.set_hash_value("aGFzaGhhc2hoYXNo");
}
pub fn add_book_protection(b: &mut Spreadsheet) {
    let p = b.get_workbook_protection_mut();
    p.set_lock_structure(true);
}

pub fn add_defined_names(b: &mut Spreadsheet, sheet_idx: usize, global_name: &str, local_name: &str) {
    let sname = b.get_sheet(&sheet_idx).unwrap().get_name().to_string();
    let q = if sname.chars().all(|c| c.is_ascii_alphanumeric()) { sname.clone() } else { format!("'{}'", sname.replace('\'', "''")) };
    let ws = b.get_sheet_mut(&sheet_idx).unwrap();
    let _ = ws.add_defined_name(global_name.to_string(), format!("{}!$A$1:$B$2", q));
    let mut dn = DefinedName::default();
    dn.set_address(format!("{}!$C$1", q));
    // name is crate-private to set directly; use add_defined_name and then scope the last one
    let _ = ws.add_defined_name(local_name.to_string(), format!("{}!$C$1", q));
    let k = ws.get_defined_names().len();
    if k > 0 {
        ws.get_defined_names_mut()[k - 1].set_local_sheet_id(sheet_idx as u32);
    }
    let _ = dn;
}
