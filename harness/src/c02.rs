//! C02 — written files are valid packages that an independent reader (pyref/xlsx_ref.py) decodes to the model.
use crate::common::*;
use crate::dump::*;
use crate::e1::*;
use crate::pool::*;
use crate::pyref::with_py;
use crate::wbuild::*;
use serde_json::{json, Value};
use umya_spreadsheet::*;

pub fn entry() -> crate::Entry {
    crate::Entry { id: "C02", run, space, replay }
}

pub const FEATURES: [&str; 13] = ["styles", "ext-links", "int-links", "comments", "merges", "defined-names", "validations", "cond-formats", "table", "protection", "sheet-removed-renamed", "chart", "image"];
/// a 2x2 PNG
const TINY_PNG: [u8; 75] = [137, 80, 78, 71, 13, 10, 26, 10, 0, 0, 0, 13, 73, 72, 68, 82, 0, 0, 0, 2, 0, 0, 0, 2, 8, 2, 0, 0, 0, 253, 212, 154, 115, 0, 0, 0, 18, 73, 68, 65, 84, 120, 156, 99, 248, 207, 192, 192, 0, 194, 12, 255, 129, 0, 0, 31, 238, 5, 251, 11, 217, 104, 139, 0, 0, 0, 0, 73, 69, 78, 68, 174, 66, 96, 130];

/// Build the lattice workbook for a feature subset.
pub fn build_lattice(bits: u32, macro_payload: bool) -> Spreadsheet {
    let mut b = new_file();
    let has = |i: usize| bits & (1 << i) != 0;
    b.new_sheet("Data 2").unwrap();
    if has(10) {
        b.new_sheet("Third").unwrap();
    }
    {
        let ws = b.get_sheet_mut(&0).unwrap();
        add_base_cells(ws, "one");
    }
    for idx in 1..b.get_sheet_count() {
        let ws = b.get_sheet_mut(&idx).unwrap();
        add_base_cells(ws, &format!("s{}", idx));
    }
    // features go on the first sheet and (smaller) on the last sheet
    let last = b.get_sheet_count() - 1;
    for (k, idx) in [0usize, last].iter().enumerate() {
        let ws = b.get_sheet_mut(idx).unwrap();
        if has(0) {
            add_styles(ws);
        }
        if has(1) {
            add_ext_links(ws, if k == 0 { 12 } else { 3 }, &|i| format!("https://example.com/s{}/page{}?x={}", k, i, i * 7));
            // two more links laid out so that row-major order differs from the order of the A1 strings (AB1 < B2 as
            // strings, B2 before AB1... and row 10+ in column G): the sheet XML and its .rels must still pair them
            for (addr, n) in [("AB1", 101u32), ("B2", 102u32)] {
                let c = ws.get_cell_mut(addr);
                c.set_value_string(format!("link{}", n));
                let mut h = Hyperlink::default();
                h.set_url(format!("https://example.com/s{}/extra{}", k, n));
                c.set_hyperlink(h);
            }
        }
        if has(2) {
            add_int_links(ws, 2, &|i| format!("Sheet1!B{}", i + k as u32));
        }
        if has(3) {
            add_comments(ws, if k == 0 { 3 } else { 1 }, &|i| if i % 2 == 0 { "Author A".into() } else { "Author B".into() }, &|i| format!("comment {} on sheet {}", i, k));
        }
        if has(4) {
            add_merges(ws, 2);
        }
        if has(6) {
            add_validations(ws, 2, "pick one", "\"a,b,c\"");
        }
        if has(7) {
            add_cond_formats(ws, 2, "20");
        }
        if has(8) {
            add_table(ws, if k == 0 { "Table1" } else { "Table2" }, ["Col A", "Col B"]);
        }
        if has(9) {
            add_sheet_protection(ws);
        }
        if has(11) {
            // a line chart over the base cells (a drawing part, a chart part and their relationships)
            let name = ws.get_name().to_string();
            let q = if name.chars().all(|c| c.is_ascii_alphanumeric()) { name.clone() } else { format!("'{}'", name.replace('\'', "''")) };
            let mut from = umya_spreadsheet::drawing::spreadsheet::MarkerType::default();
            from.set_coordinate("J12");
            let mut to = umya_spreadsheet::drawing::spreadsheet::MarkerType::default();
            to.set_coordinate("O22");
            let mut chart = Chart::default();
            chart.new_chart(ChartType::LineChart, from, to, vec![&format!("{}!$B$1:$C$1", q), &format!("{}!$B$2:$C$2", q)]);
            ws.add_chart(chart);
        }
        if has(12) {
            // two pictures with the SAME file name content on the first sheet, one on the last (media part + drawing)
            for (n, at) in if k == 0 { vec![("pic.png", "R2"), ("pic.png", "R9")] } else { vec![("other.png", "R2")] } {
                let mut m = umya_spreadsheet::drawing::spreadsheet::MarkerType::default();
                m.set_coordinate(at);
                let mut img = Image::default();
                img.new_image_with_dimensions(2, 2, n, TINY_PNG.to_vec(), m);
                ws.add_image(img);
            }
        }
    }
    if has(5) {
        add_defined_names(&mut b, 0, "GlobalOne", "LocalOne");
        add_defined_names(&mut b, last, "GlobalTwo", "LocalTwo");
    }
    if has(9) {
        add_book_protection(&mut b);
    }
    if has(10) {
        // remove the middle sheet, rename the (now second) last one
        b.remove_sheet(1).unwrap();
        b.set_sheet_name(1, "Renamed & Co").unwrap();
        // ... and add one after the removal (sheet ids / part names must stay unique)
        b.new_sheet("Added later").unwrap();
        b.get_sheet_mut(&2).unwrap().get_cell_mut("A1").set_value_string("added");
    }
    if macro_payload {
        b.set_macros_code(vec![0xD0u8, 0xCF, 0x11, 0xE0, 1, 2, 3, 4, 5, 6, 7, 8]);
    }
    b
}

fn subsets(tier: Tier) -> Vec<u32> {
    let n = FEATURES.len() as u32;
    let all = (1u32 << n) - 1;
    let mut v: Vec<u32> = (0..=all).collect();
    if tier == Tier::Quick {
        v.retain(|s| s.count_ones() <= 2 || (all & !s).count_ones() <= 1);
    }
    // simplest first
    v.sort_by_key(|s| (s.count_ones(), *s));
    v
}

// ------------------------------------------------------------------------------------------------
// model vs. independent decoder

fn part_family(p: &str) -> String {
    let mut s: String = p.chars().map(|c| if c.is_ascii_digit() { '#' } else { c }).collect();
    while s.contains("##") {
        s = s.replace("##", "#");
    }
    s
}

/// Canonical form of a reference list for comparison: quoting of a sheet prefix is optional in the formula
/// grammar ('Sheet1'!A1 == Sheet1!A1), so every quoted prefix is replaced by its unquoted, un-doubled name.
pub fn norm_sheet_quotes(s: &str) -> String {
    let cs: Vec<char> = s.chars().collect();
    let mut out = String::new();
    let mut i = 0;
    while i < cs.len() {
        if cs[i] == '"' {
            // string literal: copy verbatim
            out.push('"');
            i += 1;
            while i < cs.len() {
                out.push(cs[i]);
                if cs[i] == '"' {
                    if i + 1 < cs.len() && cs[i + 1] == '"' {
                        out.push('"');
                        i += 2;
                        continue;
                    }
                    i += 1;
                    break;
                }
                i += 1;
            }
            continue;
        }
        if cs[i] == '\'' {
            // quoted sheet prefix?
            let mut j = i + 1;
            let mut name = String::new();
            let mut closed = false;
            while j < cs.len() {
                if cs[j] == '\'' {
                    if j + 1 < cs.len() && cs[j + 1] == '\'' {
                        name.push('\'');
                        j += 2;
                        continue;
                    }
                    closed = true;
                    j += 1;
                    break;
                }
                name.push(cs[j]);
                j += 1;
            }
            if closed && j < cs.len() && cs[j] == '!' {
                out.push_str(&name);
                i = j;
                continue;
            }
        }
        out.push(cs[i]);
        i += 1;
    }
    out
}

/// Formula texts equal up to blank runs that cannot be intersection operators (a blank run is significant
/// iff both neighbours can end / start an operand).  String literals and quoted sheet names are compared verbatim.
pub fn formula_eq_mod_blanks(a: &str, b: &str) -> bool {
    fn canon(s: &str) -> String {
        let cs: Vec<char> = s.chars().collect();
        let mut out = String::new();
        let mut i = 0;
        while i < cs.len() {
            let c = cs[i];
            if c == '"' || c == '\'' {
                // copy the quoted run verbatim (doubled quote = escaped quote)
                out.push(c);
                i += 1;
                while i < cs.len() {
                    out.push(cs[i]);
                    if cs[i] == c {
                        if i + 1 < cs.len() && cs[i + 1] == c {
                            out.push(c);
                            i += 2;
                            continue;
                        }
                        i += 1;
                        break;
                    }
                    i += 1;
                }
                continue;
            }
            if c == ' ' || c == '\n' || c == '\r' || c == '\t' {
                let mut j = i;
                while j < cs.len() && (cs[j] == ' ' || cs[j] == '\n' || cs[j] == '\r' || cs[j] == '\t') {
                    j += 1;
                }
                let prev = out.chars().last();
                let next = cs.get(j).cloned();
                let ends = prev.map(|p| p.is_alphanumeric() || p == ')' || p == '"' || p == '\'' || p == '!' || p == '_' || p == '.').unwrap_or(false);
                let starts = next.map(|n| n.is_alphanumeric() || n == '(' || n == '"' || n == '\'' || n == '$' || n == '_').unwrap_or(false);
                if ends && starts {
                    out.push(' ');
                }
                i = j;
                continue;
            }
            out.push(c);
            i += 1;
        }
        out
    }
    a == b || canon(a) == canon(b)
}

pub struct Diff {
    pub clause: &'static str,
    pub symptom: String,
    pub detail: String,
}

/// Compare the pre-save model dump (dump::book_p with annotations) with P's decoding of the written bytes.
pub fn compare_model_p(model: &Value, p: &Value) -> Vec<Diff> {
    let mut out = vec![];
    let ms = model["sheets"].as_array().cloned().unwrap_or_default();
    let ps = p["sheets"].as_array().cloned().unwrap_or_default();
    let mnames: Vec<String> = ms.iter().map(|s| s["name"].as_str().unwrap_or("").to_string()).collect();
    let pnames: Vec<String> = ps.iter().map(|s| s["name"].as_str().unwrap_or("").to_string()).collect();
    if mnames != pnames {
        out.push(Diff { clause: "decoder-sheet-list", symptom: if mnames.len() != pnames.len() { "sheet-count".into() } else { "sheet-name-or-order".into() }, detail: format!("model sheets {:?}, file sheets {:?}", mnames, pnames) });
        return out;
    }
    for (si, (m, q)) in ms.iter().zip(ps.iter()).enumerate() {
        let sname = &mnames[si];
        if let Some(st) = m.get("state") {
            // the default state is "visible" (ECMA 18.2.19); the model leaves it empty when never set
            let ms_ = match st.as_str().unwrap_or("") { "" => "visible", x => x }.to_string();
            if json!(ms_) != q["state"] {
                out.push(Diff { clause: "decoder-sheet-list", symptom: "sheet-state".into(), detail: format!("sheet {:?}: state {} vs {}", sname, st, q["state"]) });
            }
        }
        if q.get("unreadable").is_some() {
            out.push(Diff { clause: "decoder-cells", symptom: "sheet-part-unreadable".into(), detail: format!("sheet {:?} part missing or malformed", sname) });
            continue;
        }
        let mc = m["cells"].as_object().cloned().unwrap_or_default();
        let pc = q["cells"].as_object().cloned().unwrap_or_default();
        // cells: every model cell with value or formula must be decoded the same; decoded cells that carry a
        // value or formula must exist in the model
        for (k, c) in &mc {
            let kind = c["kind"].as_str().unwrap_or("");
            let formula = c["formula"].as_str().unwrap_or("");
            if kind.is_empty() && formula.is_empty() {
                continue;
            }
            match pc.get(k) {
                None => out.push(Diff { clause: "decoder-cells", symptom: "cell-missing".into(), detail: format!("sheet {:?} {}: model {} not in file", sname, k, c) }),
                Some(d) => {
                    let dk = d["kind"].as_str().unwrap_or("");
                    if kind.is_empty() && dk == "s" && d["value"].as_str() == Some("") {
                        // formula without cached result written as an empty string result: same meaning
                    } else if dk != kind {
                        let tagk = if formula.is_empty() { "" } else { "formula-cached-" };
                        out.push(Diff { clause: "decoder-cells", symptom: format!("{}kind:{}->{}", tagk, if kind.is_empty() { "blank" } else { kind }, if dk.is_empty() { "blank" } else { dk }), detail: format!("sheet {:?} {}: model {} file {}", sname, k, c, d) });
                    } else {
                        let same = match kind {
                            "n" => c["bits"] == d["bits"],
                            _ => c["value"] == d["value"],
                        };
                        if !same {
                            let mv = c["value"].as_str().unwrap_or("");
                            let dv = d["value"].as_str().unwrap_or("");
                            let sym = if kind == "s" && mv.replace("\r\n", "\n").replace('\r', "\n") == dv {
                                "text-cr-normalised".to_string()
                            } else if kind == "s" && mv.trim() == dv.trim() {
                                "text-whitespace-changed".to_string()
                            } else {
                                format!("value-differs:{}", kind)
                            };
                            out.push(Diff { clause: "decoder-cells", symptom: sym, detail: format!("sheet {:?} {}: model {} file {}", sname, k, c, d) });
                        }
                        if kind == "s" {
                            let mrich = c["raw"] == json!("RichText");
                            let drich = d["rich"] == json!(true);
                            if mrich != drich {
                                out.push(Diff { clause: "decoder-cells", symptom: format!("rich:{}->{}", mrich, drich), detail: format!("sheet {:?} {}: model {} file {}", sname, k, c, d) });
                            }
                        }
                    }
                    if !formula_eq_mod_blanks(d["formula"].as_str().unwrap_or(""), formula) {
                        out.push(Diff { clause: "decoder-formulas", symptom: "formula-text".into(), detail: format!("sheet {:?} {}: model formula {:?} file {:?}", sname, k, formula, d["formula"]) });
                    }
                }
            }
        }
        for (k, d) in &pc {
            let has = !d["kind"].as_str().unwrap_or("").is_empty() || !d["formula"].as_str().unwrap_or("").is_empty();
            if has && !mc.get(k).map(|c| !c["kind"].as_str().unwrap_or("").is_empty() || !c["formula"].as_str().unwrap_or("").is_empty()).unwrap_or(false) {
                out.push(Diff { clause: "decoder-cells", symptom: "cell-extra".into(), detail: format!("sheet {:?} {}: file has {} but the model has no such cell", sname, k, d) });
            }
        }
        // merges
        if m.get("merges").is_some() && m["merges"] != q["merges"] {
            out.push(Diff { clause: "decoder-merges", symptom: "merge-set-differs".into(), detail: format!("sheet {:?}: model {} file {}", sname, m["merges"], q["merges"]) });
        }
        // hyperlinks: model links live on cells
        let mut mlinks = std::collections::BTreeMap::new();
        for (k, c) in &mc {
            if let Some(l) = c.get("link") {
                mlinks.insert(k.clone(), l.clone());
            }
        }
        let plinks = q["links"].as_object().cloned().unwrap_or_default();
        for (k, l) in &mlinks {
            match plinks.get(k) {
                None => out.push(Diff { clause: "decoder-hyperlinks", symptom: "link-missing".into(), detail: format!("sheet {:?} {}: model link {} not in file", sname, k, l) }),
                Some(d) => {
                    let url = l["url"].as_str().unwrap_or("");
                    let is_loc = l["location"] == json!(true);
                    let got = if is_loc { d["location"].as_str() } else { d["target"].as_str() };
                    if got != Some(url) {
                        // is it some other link's target (swap) ?
                        let swapped = mlinks.iter().any(|(k2, l2)| k2 != k && Some(l2["url"].as_str().unwrap_or("")) == got);
                        out.push(Diff { clause: "decoder-hyperlinks", symptom: if swapped { "link-target-of-sibling".into() } else if got.is_none() { "link-target-absent".into() } else { "link-target-differs".into() }, detail: format!("sheet {:?} {}: model {} file {}", sname, k, l, d) });
                    }
                    if is_loc && d["rid"].is_string() {
                        out.push(Diff { clause: "decoder-hyperlinks", symptom: "location-link-has-rid".into(), detail: format!("sheet {:?} {}: {}", sname, k, d) });
                    }
                }
            }
        }
        for (k, d) in &plinks {
            if !mlinks.contains_key(k) {
                out.push(Diff { clause: "decoder-hyperlinks", symptom: "link-extra".into(), detail: format!("sheet {:?} {}: file has link {} the model has not", sname, k, d) });
            }
        }
    }
    // defined names: (scope sheet index or null, name) -> text
    let mut mdn = std::collections::BTreeMap::new();
    for d in model["defined_names"].as_array().cloned().unwrap_or_default() {
        mdn.insert((d["local"].to_string(), d["name"].as_str().unwrap_or("").to_string()), norm_sheet_quotes(d["address"].as_str().unwrap_or("")));
    }
    for (si, m) in ms.iter().enumerate() {
        for d in m["defined_names"].as_array().cloned().unwrap_or_default() {
            // a sheet-held name with a local id is scoped to the sheet that holds it
            let scope = if d["local"].is_null() { "null".to_string() } else { si.to_string() };
            mdn.insert((scope, d["name"].as_str().unwrap_or("").to_string()), norm_sheet_quotes(d["address"].as_str().unwrap_or("")));
        }
    }
    let mut pdn = std::collections::BTreeMap::new();
    for d in p["defined_names"].as_array().cloned().unwrap_or_default() {
        pdn.insert((d["local"].to_string(), d["name"].as_str().unwrap_or("").to_string()), norm_sheet_quotes(d["text"].as_str().unwrap_or("")));
    }
    if model.get("defined_names").is_some() && mdn != pdn {
        let mk: Vec<_> = mdn.keys().cloned().collect();
        let pk: Vec<_> = pdn.keys().cloned().collect();
        let sym = if mk != pk {
            let mnames: std::collections::BTreeSet<_> = mk.iter().map(|k| k.1.clone()).collect();
            let pn: std::collections::BTreeSet<_> = pk.iter().map(|k| k.1.clone()).collect();
            if mnames == pn {
                "name-scope-differs"
            } else {
                "name-set-differs"
            }
        } else {
            "name-text-differs"
        };
        out.push(Diff { clause: "decoder-defined-names", symptom: sym.into(), detail: format!("model {:?} file {:?}", mdn, pdn) });
    }
    out
}

/// Save with the chosen writer, validate + decode with P, compare.  Shared by C02 spaces and by C06/C11.
pub fn check_package(b: &Spreadsheet, light: bool, tags: &[&str], case: &Value, sink: &mut Sink, prefix: &str) -> Option<Vec<u8>> {
    check_package_against(b, b, light, tags, case, sink, prefix, &[])
}
/// `b` is saved; the decoded package is compared with the model dump of `model_of` (the same object, or an eagerly
/// loaded twin that received the same edits when `b` still has unloaded sheets).
/// `inherited`: validity symptoms the SOURCE file already shows (e.g. Excel's own legacy VML with an unclosed <br>, copied
/// verbatim with an unloaded sheet): they are not the writer's doing and are not reported.
pub fn check_package_against(b: &Spreadsheet, model_of: &Spreadsheet, light: bool, tags: &[&str], case: &Value, sink: &mut Sink, prefix: &str, inherited: &[String]) -> Option<Vec<u8>> {
    let model = book_p(model_of, Opts { styles: false, annotations: true, dims: false });
    // content-derived tag: some text of the model contains a carriage return
    let mut tags_v: Vec<&str> = tags.to_vec();
    if model.to_string().contains("\\r") {
        tags_v.push("text-has-cr");
    }
    let tags: &[&str] = &tags_v;
    let bytes = match save_bytes(b, light) {
        Ok(x) => x,
        Err(e) => {
            sink.violations.push(Violation::new(&format!("{}save-succeeds", prefix), &format!("save-failed:{}", panic_class(&e)), tags, case.clone(), e));
            return None;
        }
    };
    let (problems, pbook) = with_py(|py| py.validate_decode(&bytes, false));
    let mut seen = std::collections::BTreeSet::new();
    for (class, part, msg) in problems {
        let sym = format!("{}:{}", class, part_family(&part));
        if inherited.contains(&sym) {
            sink.count("validity_problems_inherited_from_source_file", 1);
            continue;
        }
        if seen.insert(sym.clone()) {
            sink.violations.push(Violation::new(&format!("{}package-valid", prefix), &sym, tags, case.clone(), format!("{}: {}", part, msg)));
        }
    }
    let mut seen2 = std::collections::BTreeSet::new();
    for d in compare_model_p(&model, &pbook) {
        if seen2.insert((d.clause, d.symptom.clone())) {
            sink.violations.push(Violation::new(&format!("{}{}", prefix, d.clause), &d.symptom, tags, case.clone(), d.detail));
        }
    }
    sink.evaluations += 1;
    Some(bytes)
}

// ------------------------------------------------------------------------------------------------
struct Lattice {
    subsets: Vec<u32>,
}
impl Lattice {
    fn decode(&self, i: u64) -> (u32, bool, bool) {
        let s = self.subsets[(i / 4) as usize];
        (s, i % 2 == 1, (i / 2) % 2 == 1)
    }
    fn tag_list(&self, i: u64) -> Vec<String> {
        let (s, light, mac) = self.decode(i);
        let mut t: Vec<String> = (0..FEATURES.len()).filter(|k| s & (1 << k) != 0).map(|k| FEATURES[k].to_string()).collect();
        if t.is_empty() {
            t.push("base".into());
        }
        // pair tags (for defects that need two features together)
        let singles = t.clone();
        for a in 0..singles.len() {
            for b in a + 1..singles.len() {
                t.push(format!("{}+{}", singles[a], singles[b]));
            }
        }
        if light {
            t.push("light-writer".into());
        }
        if mac {
            t.push("macro".into());
        }
        t
    }
}
impl Space for Lattice {
    fn len(&self) -> u64 {
        self.subsets.len() as u64 * 4
    }
    fn describe(&self, i: u64) -> Value {
        let (s, light, mac) = self.decode(i);
        json!({"kind":"lattice","features": (0..FEATURES.len()).filter(|k| s & (1<<k) != 0).map(|k| FEATURES[k]).collect::<Vec<_>>(), "bits": s, "light": light, "macro": mac})
    }
    fn tags(&self, i: u64) -> Vec<String> {
        self.tag_list(i)
    }
    fn run(&self, i: u64, sink: &mut Sink) {
        let (s, light, mac) = self.decode(i);
        let tl = self.tag_list(i);
        let tags: Vec<&str> = tl.iter().map(|x| x.as_str()).collect();
        let case = self.describe(i);
        let b = match std::panic::catch_unwind(|| build_lattice(s, mac)) {
            Ok(b) => b,
            Err(e) => {
                sink.violations.push(Violation::new("build", &format!("panic:{}", panic_class(&panic_msg(&e))), &tags, case, panic_msg(&e)));
                return;
            }
        };
        if let Some(bytes) = check_package(&b, light, &tags, &case, sink, "") {
            sink.hashes.push(fnv(&strip_volatile(&bytes)));
        }
    }
}

/// Observation hash input: list of part names and sizes (bytes themselves contain timestamps).
fn strip_volatile(bytes: &[u8]) -> Vec<u8> {
    let mut out = vec![];
    if let Ok(mut z) = zip::ZipArchive::new(std::io::Cursor::new(bytes)) {
        for i in 0..z.len() {
            if let Ok(f) = z.by_index(i) {
                if f.name().starts_with("docProps/") {
                    continue;
                }
                out.extend_from_slice(f.name().as_bytes());
                out.extend_from_slice(&f.size().to_le_bytes());
            }
        }
    }
    out
}

// ------------------------------------------------------------------------------------------------
// escape channels x special strings
pub const SPECIALS: [(&str, &str); 12] = [
    ("amp", "a&b"),
    ("lt", "a<b"),
    ("gt", "a>b"),
    ("dquote", "a\"b"),
    ("apos", "a'b"),
    ("amp-entity", "a&amp;b"),
    ("edge-blank", " ab "),
    ("lf", "a\nb"),
    ("crlf", "a\r\nb"),
    ("non-bmp", "a😀b"),
    ("cdata-end", "a]]>b"),
    ("percent", "a%20b"),
];

pub const CHANNELS: [&str; 24] = [
    "cell-text", "cell-rich-run", "cell-formula-string", "formula-cached-text", "sheet-name", "defined-name-name", "defined-name-formula",
    "link-url", "link-location", "link-tooltip", "comment-author", "comment-text", "validation-prompt", "validation-error", "validation-formula",
    "cf-formula", "table-name", "table-column", "header", "footer", "font-name", "numfmt-code", "props-title", "props-creator",
];

/// Whether `special` is a meaningful/legal value for `channel`.
pub fn channel_accepts(channel: &str, sp: &str) -> bool {
    let multiline = sp == "lf" || sp == "crlf";
    match channel {
        // Excel sheet names: no [ ] : \ / ? *, no line breaks
        "sheet-name" => !multiline && sp != "cdata-end",
        // names are identifiers: letters, digits, _ . \ only -> only the plain variants make sense
        "defined-name-name" | "table-name" => false,
        "link-url" | "link-location" => !multiline && sp != "edge-blank",
        "font-name" | "numfmt-code" | "table-column" => !multiline,
        "defined-name-formula" | "validation-formula" | "cf-formula" | "cell-formula-string" => !multiline,
        _ => true,
    }
}

pub fn build_channel(channel: &str, text: &str) -> Spreadsheet {
    let mut b = new_file();
    b.new_sheet("Other").unwrap();
    {
        let ws = b.get_sheet_mut(&0).unwrap();
        add_base_cells(ws, "ch");
    }
    let ws = b.get_sheet_mut(&0).unwrap();
    match channel {
        "cell-text" => {
            ws.get_cell_mut("E1").set_value_string(text);
            ws.get_cell_mut("E2").set_value_string(text); // same string twice (interning)
        }
        "cell-rich-run" => {
            let mut rt = RichText::default();
            let mut e1 = TextElement::default();
            e1.set_text(text);
            e1.get_run_properties_mut().set_bold(true);
            let mut e2 = TextElement::default();
            e2.set_text("tail");
            rt.add_rich_text_elements(e1);
            rt.add_rich_text_elements(e2);
            ws.get_cell_mut("E1").set_rich_text(rt);
        }
        "cell-formula-string" => {
            ws.get_cell_mut("E1").set_formula(format!("\"{}\"&A1", text.replace('"', "\"\"")));
        }
        "formula-cached-text" => {
            ws.get_cell_mut("E1").set_formula("A1&\"\"");
            ws.get_cell_mut("E1").set_formula_result_default(text);
        }
        "sheet-name" => {
            b.set_sheet_name(1, text).unwrap();
        }
        "defined-name-formula" => {
            let _ = ws.add_defined_name("Named1".to_string(), format!("\"{}\"", text.replace('"', "\"\"")));
        }
        "link-url" => {
            add_ext_links(ws, 2, &|i| format!("https://example.com/{}?q={}", i, text));
        }
        "link-location" => {
            add_int_links(ws, 2, &|i| format!("'{}'!A{}", text.replace('\'', "''"), i));
        }
        "link-tooltip" => {
            add_ext_links(ws, 1, &default_url);
            ws.get_cell_mut("G1").get_hyperlink_mut().set_tooltip(text);
        }
        "comment-author" => add_comments(ws, 2, &|i| if i == 1 { text.to_string() } else { "Plain".into() }, &|i| format!("c{}", i)),
        "comment-text" => add_comments(ws, 2, &|_| "Author".into(), &|i| if i == 1 { text.to_string() } else { "plain".into() }),
        "validation-prompt" => add_validations(ws, 1, text, "\"a,b\""),
        "validation-error" => {
            add_validations(ws, 1, "p", "\"a,b\"");
            let mut dvs = ws.get_data_validations().unwrap().clone();
            let mut l: Vec<DataValidation> = dvs.get_data_validation_list().to_vec();
            l[0].set_error_message(text).set_error_title(text).set_show_error_message(true);
            dvs.set_data_validation_list(l);
            ws.set_data_validations(dvs);
        }
        "validation-formula" => add_validations(ws, 1, "p", &format!("\"{}\"", text.replace('"', "\"\""))),
        "cf-formula" => add_cond_formats(ws, 1, &format!("\"{}\"", text.replace('"', "\"\""))),
        "table-column" => add_table(ws, "Table1", [text, "Other"]),
        "header" => {
            ws.get_header_footer_mut().get_odd_header_mut().set_value(format!("&C{}", text));
        }
        "footer" => {
            ws.get_header_footer_mut().get_odd_footer_mut().set_value(format!("&L{}", text));
        }
        "font-name" => {
            ws.get_cell_mut("B1").get_style_mut().get_font_mut().set_name(text);
        }
        "numfmt-code" => {
            ws.get_cell_mut("B1").get_style_mut().get_numbering_format_mut().set_format_code(format!("0.0\"{}\"", text.replace('"', "")));
        }
        "props-title" => {
            b.get_properties_mut().set_title(text);
        }
        "props-creator" => {
            b.get_properties_mut().set_creator(text);
        }
        _ => {}
    }
    b
}

struct Channels {
    cases: Vec<(usize, usize, bool)>,
}
fn channel_cases() -> Vec<(usize, usize, bool)> {
    let mut v = vec![];
    for (ci, ch) in CHANNELS.iter().enumerate() {
        for (si, (sn, _)) in SPECIALS.iter().enumerate() {
            if channel_accepts(ch, sn) {
                v.push((ci, si, false));
                v.push((ci, si, true));
            }
        }
    }
    v
}
impl Space for Channels {
    fn len(&self) -> u64 {
        self.cases.len() as u64
    }
    fn describe(&self, i: u64) -> Value {
        let (c, s, light) = self.cases[i as usize];
        json!({"kind":"channel","channel": CHANNELS[c], "special": SPECIALS[s].0, "text": SPECIALS[s].1, "light": light})
    }
    fn tags(&self, i: u64) -> Vec<String> {
        let (c, s, _) = self.cases[i as usize];
        vec![format!("ch:{}", CHANNELS[c]), format!("sp:{}", SPECIALS[s].0), format!("ch:{}+sp:{}", CHANNELS[c], SPECIALS[s].0)]
    }
    fn run(&self, i: u64, sink: &mut Sink) {
        let (c, s, light) = self.cases[i as usize];
        let tl = self.tags(i);
        let tags: Vec<&str> = tl.iter().map(|x| x.as_str()).collect();
        let case = self.describe(i);
        let (ch, text) = (CHANNELS[c], SPECIALS[s].1);
        let b = match std::panic::catch_unwind(|| build_channel(ch, text)) {
            Ok(b) => b,
            Err(e) => {
                sink.violations.push(Violation::new("build", &format!("panic:{}", panic_class(&panic_msg(&e))), &tags, case, panic_msg(&e)));
                return;
            }
        };
        if let Some(bytes) = check_package(&b, light, &tags, &case, sink, "") {
            sink.hashes.push(fnv(&strip_volatile(&bytes)) ^ fnv(text.as_bytes()) ^ fnv(ch.as_bytes()));
        }
    }
}

// ------------------------------------------------------------------------------------------------
// corpus re-saved
pub fn corpus_files() -> Vec<String> {
    let dir = format!("{}/tests/test_files", repo_root());
    let mut v: Vec<String> = std::fs::read_dir(&dir)
        .map(|rd| rd.filter_map(|e| e.ok()).map(|e| e.path().to_string_lossy().to_string()).filter(|p| p.ends_with(".xlsx") || p.ends_with(".xlsm")).collect())
        .unwrap_or_default();
    v.retain(|p| std::fs::metadata(p).map(|m| m.len() > 0).unwrap_or(false));
    v.sort();
    v
}

struct Corpus {
    files: Vec<String>,
    big: bool,
}
impl Space for Corpus {
    fn len(&self) -> u64 {
        self.files.len() as u64 * 2
    }
    fn describe(&self, i: u64) -> Value {
        json!({"kind":"corpus","file": self.files[(i/2) as usize].rsplit('/').next(), "light": i % 2 == 1})
    }
    fn tags(&self, i: u64) -> Vec<String> {
        vec![format!("corpus:{}", self.files[(i / 2) as usize].rsplit('/').next().unwrap_or(""))]
    }
    fn run(&self, i: u64, sink: &mut Sink) {
        let path = &self.files[(i / 2) as usize];
        let light = i % 2 == 1;
        let tl = self.tags(i);
        let tags: Vec<&str> = tl.iter().map(|x| x.as_str()).collect();
        let case = self.describe(i);
        let data = match std::fs::read(path) {
            Ok(d) => d,
            Err(_) => return,
        };
        if !self.big && data.len() > 600_000 {
            sink.count("corpus_skipped_big_in_quick", 1);
            return;
        }
        let b = match load_bytes(&data, true) {
            Ok(b) => b,
            Err(e) => {
                // a corpus file the library cannot read is C03's business, not C02's
                sink.count("corpus_unreadable", 1);
                let _ = e;
                return;
            }
        };
        if let Some(bytes) = check_package(&b, light, &tags, &case, sink, "") {
            sink.hashes.push(fnv(&strip_volatile(&bytes)));
        }
    }
}

/// Corpus files opened LAZILY; one sheet (first or last) is materialised and gets a text cell and an external link while
/// the others stay unloaded; the saved package must be valid and decode to what an eagerly loaded twin with the same
/// edit shows.
struct LazyCorpus {
    files: Vec<String>,
    big: bool,
}
impl Space for LazyCorpus {
    fn len(&self) -> u64 {
        self.files.len() as u64 * 4
    }
    fn describe(&self, i: u64) -> Value {
        json!({"kind":"lazy-corpus","file": self.files[(i/4) as usize].rsplit('/').next(), "edited_sheet": if (i / 2) % 2 == 0 { "first" } else { "last" }, "light": i % 2 == 1})
    }
    fn tags(&self, i: u64) -> Vec<String> {
        vec![format!("corpus:{}", self.files[(i / 4) as usize].rsplit('/').next().unwrap_or("")), "lazy-load".into(), format!("edited:{}", if (i / 2) % 2 == 0 { "first" } else { "last" })]
    }
    fn run(&self, i: u64, sink: &mut Sink) {
        let path = &self.files[(i / 4) as usize];
        let light = i % 2 == 1;
        let last = (i / 2) % 2 == 1;
        let tl = self.tags(i);
        let tags: Vec<&str> = tl.iter().map(|x| x.as_str()).collect();
        let case = self.describe(i);
        let data = match std::fs::read(path) {
            Ok(d) => d,
            Err(_) => return,
        };
        if !self.big && data.len() > 600_000 {
            sink.count("corpus_skipped_big_in_quick", 1);
            return;
        }
        let (mut lazy, mut eager) = match (load_bytes(&data, false), load_bytes(&data, true)) {
            (Ok(a), Ok(b)) => (a, b),
            _ => {
                sink.count("corpus_unreadable", 1);
                return;
            }
        };
        let n = eager.get_sheet_count();
        if n == 0 {
            return;
        }
        let idx = if last { n - 1 } else { 0 };
        let edit = |b: &mut Spreadsheet| -> Result<(), String> {
            let r = std::panic::catch_unwind(std::panic::AssertUnwindSafe(|| {
                let ws = b.get_sheet_mut(&idx).unwrap();
                let (hc, hr) = ws.get_highest_column_and_row();
                if hc >= 16000 || hr >= 1_000_000 {
                    return;
                }
                let c = ws.get_cell_mut((hc + 2, hr + 2));
                c.set_value_string("added after a lazy load");
                let mut h = Hyperlink::default();
                h.set_url("https://example.com/lazy?x=1&y=2");
                c.set_hyperlink(h);
            }));
            r.map_err(|e| panic_msg(&e))
        };
        if let Err(e) = edit(&mut lazy) {
            sink.violations.push(Violation::new("save-succeeds", &format!("edit-failed:{}", panic_class(&e)), &tags, case.clone(), format!("lazily loaded: {}", e)));
            return;
        }
        if edit(&mut eager).is_err() {
            return; // the eager twin cannot take the edit either: not a lazy-loading matter
        }
        let inherited: Vec<String> = with_py(|py| py.validate_decode(&data, false)).0.into_iter().map(|(class, part, _)| format!("{}:{}", class, part_family(&part))).collect();
        if let Some(bytes) = check_package_against(&lazy, &eager, light, &tags, &case, sink, "", &inherited) {
            sink.hashes.push(fnv(&strip_volatile(&bytes)));
        }
    }
}

/// Second session: give feature `f` (0..=9) to the first and the last sheet of an existing workbook, the way
/// build_lattice does it for a fresh one.
pub fn add_feature_later(b: &mut Spreadsheet, f: usize) {
    let last = b.get_sheet_count() - 1;
    let mut targets = vec![0usize];
    if last != 0 {
        targets.push(last);
    }
    for (k, idx) in targets.iter().enumerate() {
        let ws = b.get_sheet_mut(idx).unwrap();
        match f {
            0 => add_styles(ws),
            1 => add_ext_links(ws, if k == 0 { 12 } else { 3 }, &|i| format!("https://example.com/later{}/page{}?x={}", k, i, i * 7)),
            2 => add_int_links(ws, 2, &|i| format!("Sheet1!B{}", i + k as u32)),
            3 => add_comments(ws, if k == 0 { 3 } else { 1 }, &|i| if i % 2 == 0 { "Author A".into() } else { "Author C".into() }, &|i| format!("later comment {} on sheet {}", i, k)),
            4 => add_merges(ws, 2),
            6 => add_validations(ws, 2, "pick one", "\"a,b,c\""),
            7 => add_cond_formats(ws, 2, "20"),
            8 => add_table(ws, if k == 0 { "TableLater1" } else { "TableLater2" }, ["Col A", "Col B"]),
            9 => add_sheet_protection(ws),
            _ => {}
        }
    }
    if f == 5 {
        add_defined_names(b, 0, "LaterGlobalOne", "LaterLocalOne");
        add_defined_names(b, last, "LaterGlobalTwo", "LaterLocalTwo");
    }
    if f == 9 {
        add_book_protection(b);
    }
}

/// A lattice workbook is saved and reloaded, then one more feature is added and the result is saved again.
struct SecondSessionLattice {
    cases: Vec<(u32, usize)>,
}
impl Space for SecondSessionLattice {
    fn len(&self) -> u64 {
        self.cases.len() as u64 * 2
    }
    fn describe(&self, i: u64) -> Value {
        let (bits, f) = self.cases[(i / 2) as usize];
        let names: Vec<&str> = (0..FEATURES.len()).filter(|k| bits & (1 << k) != 0).map(|k| FEATURES[k]).collect();
        json!({"kind":"second-session","first_session_features": names, "bits": bits, "added_after_reload": FEATURES[f], "light": i % 2 == 1})
    }
    fn tags(&self, i: u64) -> Vec<String> {
        let (bits, f) = self.cases[(i / 2) as usize];
        let mut t: Vec<String> = (0..FEATURES.len()).filter(|k| bits & (1 << k) != 0).map(|k| FEATURES[k].to_string()).collect();
        t.push(format!("added:{}", FEATURES[f]));
        t.push("second-session".into());
        t
    }
    fn run(&self, i: u64, sink: &mut Sink) {
        let (bits, f) = self.cases[(i / 2) as usize];
        let light = i % 2 == 1;
        let tl = self.tags(i);
        let tags: Vec<&str> = tl.iter().map(|x| x.as_str()).collect();
        let case = self.describe(i);
        let r = std::panic::catch_unwind(|| -> Result<Spreadsheet, String> {
            let b = build_lattice(bits, false);
            let (_, mut b2) = roundtrip(&b, light)?;
            add_feature_later(&mut b2, f);
            Ok(b2)
        });
        match r {
            Err(e) => sink.violations.push(Violation::new("save-succeeds", &format!("build-panicked:{}", panic_class(&panic_msg(&e))), &tags, case, panic_msg(&e))),
            Ok(Err(e)) => sink.violations.push(Violation::new("save-succeeds", &format!("first-generation-failed:{}", panic_class(&e)), &tags, case, e)),
            Ok(Ok(b2)) => {
                if let Some(bytes) = check_package(&b2, light, &tags, &case, sink, "") {
                    sink.hashes.push(fnv(&strip_volatile(&bytes)));
                }
            }
        }
    }
}

/// Corpus files in a SECOND session: loaded eagerly, every sheet in turn gets one more object that needs a
/// relationship of its own (a table, a comment, an external link) next to whatever the file already carries on that
/// sheet (drawings, OLE objects, controls, printer settings ...); the saved package must be valid (relationship ids and
/// types, part names, content types) and decode to the model.
struct CorpusSecondSession {
    files: Vec<String>,
    big: bool,
}
const CSS_ADDS: [&str; 3] = ["table", "comment", "ext-link"];
impl Space for CorpusSecondSession {
    fn len(&self) -> u64 {
        self.files.len() as u64 * CSS_ADDS.len() as u64
    }
    fn describe(&self, i: u64) -> Value {
        json!({"kind":"corpus-second-session","file": self.files[(i / 3) as usize].rsplit('/').next(), "added_to_every_sheet": CSS_ADDS[(i % 3) as usize], "light": (i / 3) % 2 == 1})
    }
    fn tags(&self, i: u64) -> Vec<String> {
        vec![format!("corpus:{}", self.files[(i / 3) as usize].rsplit('/').next().unwrap_or("")), "second-session".into(), format!("added:{}", CSS_ADDS[(i % 3) as usize])]
    }
    fn run(&self, i: u64, sink: &mut Sink) {
        let path = &self.files[(i / 3) as usize];
        let add = CSS_ADDS[(i % 3) as usize];
        let light = (i / 3) % 2 == 1;
        let tl = self.tags(i);
        let tags: Vec<&str> = tl.iter().map(|x| x.as_str()).collect();
        let case = self.describe(i);
        let data = match std::fs::read(path) {
            Ok(d) => d,
            Err(_) => return,
        };
        if !self.big && data.len() > 900_000 {
            sink.count("corpus_skipped_big_in_quick", 1);
            return;
        }
        let mut b = match load_bytes(&data, true) {
            Ok(b) => b,
            Err(_) => {
                sink.count("corpus_unreadable", 1);
                return;
            }
        };
        let r = std::panic::catch_unwind(std::panic::AssertUnwindSafe(|| {
            for idx in 0..b.get_sheet_count() {
                let ws = b.get_sheet_mut(&idx).unwrap();
                let (hc, hr) = ws.get_highest_column_and_row();
                if hc >= 16000 || hr >= 1_000_000 {
                    continue;
                }
                let (c0, r0) = (hc + 2, hr + 2);
                match add {
                    "table" => {
                        ws.get_cell_mut((c0, r0)).set_value_string("Col A");
                        ws.get_cell_mut((c0 + 1, r0)).set_value_string("Col B");
                        ws.get_cell_mut((c0, r0 + 1)).set_value_number(1);
                        ws.get_cell_mut((c0 + 1, r0 + 1)).set_value_number(2);
                        let mut t = Table::new(&format!("LaterTable{}", idx + 1), ((c0, r0), (c0 + 1, r0 + 1)));
                        t.add_column(TableColumn::new("Col A"));
                        t.add_column(TableColumn::new("Col B"));
                        ws.add_table(t);
                    }
                    "comment" => {
                        let mut c = Comment::default();
                        c.new_comment((c0, r0));
                        c.set_author("second session");
                        c.set_text_string("added in a second session");
                        ws.add_comments(c);
                    }
                    _ => {
                        let cell = ws.get_cell_mut((c0, r0));
                        cell.set_value_string("link");
                        let mut h = Hyperlink::default();
                        h.set_url("https://example.com/second-session?x=1&y=2");
                        cell.set_hyperlink(h);
                    }
                }
            }
        }));
        if let Err(e) = r {
            sink.violations.push(Violation::new("save-succeeds", &format!("edit-panicked:{}", panic_class(&panic_msg(&e))), &tags, case, panic_msg(&e)));
            return;
        }
        let inherited: Vec<String> = with_py(|py| py.validate_decode(&data, false)).0.into_iter().map(|(class, part, _)| format!("{}:{}", class, part_family(&part))).collect();
        if let Some(bytes) = check_package_against(&b, &b, light, &tags, &case, sink, "", &inherited) {
            sink.hashes.push(fnv(&strip_volatile(&bytes)));
        }
    }
}

/// Lattice workbooks that go through structural calls AFTER they were filled and right before the save: whatever
/// bookkeeping those calls leave behind (row table, indexes, spans), the file must still carry every cell of the model.
const POST_OPS: [&str; 5] = ["cleanup", "insert-row-then-remove-it", "move-block-down", "remove-last-cell+cleanup", "copy-row-styling+cleanup"];
struct PostOps {
    cases: Vec<(u32, usize)>,
}
impl Space for PostOps {
    fn len(&self) -> u64 {
        self.cases.len() as u64 * 2
    }
    fn describe(&self, i: u64) -> Value {
        let (bits, op) = self.cases[(i / 2) as usize];
        let names: Vec<&str> = (0..FEATURES.len()).filter(|k| bits & (1 << k) != 0).map(|k| FEATURES[k]).collect();
        json!({"kind":"post-ops","features": names, "bits": bits, "before_save": POST_OPS[op], "light": i % 2 == 1})
    }
    fn tags(&self, i: u64) -> Vec<String> {
        let (bits, op) = self.cases[(i / 2) as usize];
        let mut t: Vec<String> = (0..FEATURES.len()).filter(|k| bits & (1 << k) != 0).map(|k| FEATURES[k].to_string()).collect();
        t.push(format!("post-op:{}", POST_OPS[op]));
        t
    }
    fn run(&self, i: u64, sink: &mut Sink) {
        let (bits, op) = self.cases[(i / 2) as usize];
        let light = i % 2 == 1;
        let tl = self.tags(i);
        let tags: Vec<&str> = tl.iter().map(|x| x.as_str()).collect();
        let case = self.describe(i);
        let r = std::panic::catch_unwind(|| {
            let mut b = build_lattice(bits, false);
            for idx in 0..b.get_sheet_count() {
                let ws = b.get_sheet_mut(&idx).unwrap();
                let (hc, hr) = ws.get_highest_column_and_row();
                match POST_OPS[op] {
                    "cleanup" => ws.cleanup(),
                    "insert-row-then-remove-it" => {
                        ws.insert_new_row(&2, &1);
                        ws.remove_row(&2, &1);
                    }
                    "move-block-down" => {
                        ws.move_range("A1:B2", &((hr + 3) as i32), &0);
                    }
                    "remove-last-cell+cleanup" => {
                        ws.remove_cell((hc, hr));
                        ws.cleanup();
                    }
                    _ => {
                        ws.copy_row_styling(&1, &(hr + 2), None, None);
                        ws.cleanup();
                    }
                }
            }
            b
        });
        match r {
            Err(e) => sink.violations.push(Violation::new("save-succeeds", &format!("build-panicked:{}", panic_class(&panic_msg(&e))), &tags, case, panic_msg(&e))),
            Ok(b) => {
                if let Some(bytes) = check_package(&b, light, &tags, &case, sink, "") {
                    sink.hashes.push(fnv(&strip_volatile(&bytes)));
                }
            }
        }
    }
}

pub fn space(tier: Tier, id: &str) -> Option<Box<dyn Space>> {
    match id {
        "lattice" => Some(Box::new(Lattice { subsets: subsets(tier) })),
        "channels" => Some(Box::new(Channels { cases: channel_cases() })),
        "corpus" => Some(Box::new(Corpus { files: corpus_files(), big: tier == Tier::Thorough })),
        "second-session" => {
            let n = FEATURES.len();
            let mut cases = vec![];
            let max = if tier == Tier::Thorough { 2 } else { 1 };
            for bits in 0u32..(1 << n) {
                if bits.count_ones() > max {
                    continue;
                }
                for f in 0..10usize {
                    if bits & (1 << f) == 0 {
                        cases.push((bits, f));
                    }
                }
            }
            Some(Box::new(SecondSessionLattice { cases }))
        }
        "corpus-second-session" => Some(Box::new(CorpusSecondSession { files: corpus_files(), big: tier == Tier::Thorough })),
        "post-ops" => {
            let n = FEATURES.len();
            let mut cases = vec![];
            let max = if tier == Tier::Thorough { 2 } else { 1 };
            for bits in 0u32..(1 << n) {
                if bits.count_ones() <= max || bits == (1 << n) - 1 {
                    for op in 0..POST_OPS.len() {
                        cases.push((bits, op));
                    }
                }
            }
            Some(Box::new(PostOps { cases }))
        }
        "lazy-corpus" => Some(Box::new(LazyCorpus { files: corpus_files(), big: tier == Tier::Thorough })),
        _ => None,
    }
}

fn replay(tier: Tier, case: &Value) -> Vec<Violation> {
    replay_e1(space(tier, case["_space"].as_str().unwrap_or("")), case)
}

fn run(ctx: &Ctx) -> i32 {
    let ids = ["lattice", "channels", "corpus", "lazy-corpus", "second-session", "corpus-second-session", "post-ops"];
    let spaces = ids.iter().map(|id| (*id, space(ctx.tier, id).unwrap())).collect();
    let nsub = subsets(ctx.tier).len();
    run_e1(
        ctx,
        E1Spec {
            spaces,
            cfg: PoolCfg { chunk: 8, case_timeout: std::time::Duration::from_secs(120), ..Default::default() },
            level: "exploration",
            rule: "every workbook of (i) the feature-subset lattice over 13 annotation/structure features (incl. a chart and pictures) x {standard, light writer} x {macro payload, none}, (ii) every escape channel x applicable special string x both writers, (iii) every corpus file loaded and re-saved by both writers, (v) every lattice workbook with at most 1 (thorough: 2) features saved and reloaded, then given one more feature on its first and last sheet, (vi) every corpus file loaded eagerly and given, on every sheet, one more object with a relationship of its own (table / comment / external link), (vii) lattice workbooks (at most 1 feature, thorough 2, and all at once) that go through cleanup / insert+remove row / move_range / remove_cell+cleanup / copy_row_styling+cleanup on every sheet right before the save, (iv) every corpus file opened lazily, its first or last sheet materialised and given a text cell with an external link while the other sheets stay unloaded (model = an eagerly loaded twin with the same edit), is written to memory and handed to the independent Python validator+decoder; oracle = no validity problem and decoded cells/formulas/hyperlinks/merges/defined names/sheet list equal the pre-save model dump. distinct_nontrivial = distinct (part list, part sizes[, channel, text]) signatures of the produced packages".into(),
            alphabets: json!({"features": FEATURES, "subsets": nsub, "writers": 2, "macro": 2, "channels": CHANNELS, "specials": SPECIALS.iter().map(|s| s.0).collect::<Vec<_>>(), "channel_cases": channel_cases().len(), "corpus_files": corpus_files().len()}),
            bounds: json!({"lattice": if ctx.tier == Tier::Quick {"subsets of size <=2 and complements of size <=1 (cut of the 2^13 lattice, stated as a bound)"} else {"all 2^13 subsets"}, "corpus": if ctx.tier == Tier::Quick {"files <= 600 kB"} else {"all files"}}),
            exhaustive: true,
            caps_hit: vec![],
            assumptions: vec!["independent reader = /verif/pyref/xlsx_ref.py (stdlib zipfile + expat); _xHHHH_ escapes are not interpreted on either side".into(), "count= attributes, part names and rId numbering are not compared (not in the statement)".into()],
            min_distinct: 20,
        },
    )
}
