//! Reference grid model for C07 (shared, library-free): a sheet is a set of cells-as-points plus row/column
//! setting tables, merged rectangles, comments by cell, conditional-format rectangle lists and an optional
//! filter rectangle.  Insert/remove act on points and on rectangles as SETS of cells (survivors are
//! translated; a rectangle with no survivor disappears, otherwise it becomes the bounding box of its
//! survivors; a rectangle straddling an insert position grows).  Move = clear source and destination
//! rectangles, place the translated source cells; copy = place the (non-blank) source cells.
//! Nothing in this file calls the library under test.
use std::collections::BTreeMap;

pub const MAXC: u32 = 16384;
pub const MAXR: u32 = 1_048_576;

#[derive(Clone, Copy, Debug, PartialEq, Eq, PartialOrd, Ord, Hash)]
pub enum Axis {
    Row,
    Col,
}
impl Axis {
    pub fn name(&self) -> &'static str {
        match self {
            Axis::Row => "row",
            Axis::Col => "col",
        }
    }
    pub fn limit(&self) -> u32 {
        match self {
            Axis::Row => MAXR,
            Axis::Col => MAXC,
        }
    }
}

/// Inclusive rectangle.  Values come either from the model (always r1<=r2, c1<=c2, >=1) or from a dump of the
/// real object (anything the library produced, including 0 or start>end).
#[derive(Clone, Copy, Debug, PartialEq, Eq, PartialOrd, Ord, Hash)]
pub struct Rect {
    pub r1: u32,
    pub c1: u32,
    pub r2: u32,
    pub c2: u32,
}
impl Rect {
    pub fn new(r1: u32, c1: u32, r2: u32, c2: u32) -> Rect {
        Rect { r1, c1, r2, c2 }
    }
    pub fn span(&self, ax: Axis) -> (u32, u32) {
        match ax {
            Axis::Row => (self.r1, self.r2),
            Axis::Col => (self.c1, self.c2),
        }
    }
    pub fn with_span(&self, ax: Axis, s: (u32, u32)) -> Rect {
        match ax {
            Axis::Row => Rect { r1: s.0, r2: s.1, ..*self },
            Axis::Col => Rect { c1: s.0, c2: s.1, ..*self },
        }
    }
    pub fn contains(&self, r: u32, c: u32) -> bool {
        self.r1 <= r && r <= self.r2 && self.c1 <= c && c <= self.c2
    }
    pub fn translated(&self, dr: i32, dc: i32) -> Rect {
        Rect { r1: (self.r1 as i64 + dr as i64) as u32, r2: (self.r2 as i64 + dr as i64) as u32, c1: (self.c1 as i64 + dc as i64) as u32, c2: (self.c2 as i64 + dc as i64) as u32 }
    }
    pub fn a1(&self) -> String {
        // an axis whose both ends are 0 is ABSENT: whole columns (C:D) / whole rows (3:4)
        if self.r1 == 0 && self.r2 == 0 && self.c1 != 0 {
            return format!("{}:{}", col_letters(self.c1), col_letters(self.c2));
        }
        if self.c1 == 0 && self.c2 == 0 && self.r1 != 0 {
            return format!("{}:{}", self.r1, self.r2);
        }
        let s = format!("{}{}", col_letters(self.c1), self.r1);
        if self.r1 == self.r2 && self.c1 == self.c2 {
            s
        } else {
            format!("{}:{}{}", s, col_letters(self.c2), self.r2)
        }
    }
}

/// own bijective base-26 (0 prints as "?0" so that garbage coordinates stay printable)
pub fn col_letters(mut n: u32) -> String {
    if n == 0 {
        return "?0".into();
    }
    let mut v = vec![];
    while n > 0 {
        n -= 1;
        v.push((b'A' + (n % 26) as u8) as char);
        n /= 26;
    }
    v.iter().rev().collect()
}
pub fn a1(r: u32, c: u32) -> String {
    format!("{}{}", col_letters(c), r)
}

#[derive(Clone, Debug, PartialEq, Eq, PartialOrd, Ord, Hash)]
pub struct RefCell {
    pub value: String,
    pub kind: String,
    pub formula: String,
    pub style: String,
    pub link: Option<String>,
}

/// Explicit setting of a row (height) or column (width): size as f64 bits + hidden flag + the style of the dimension.
#[derive(Clone, Copy, Debug, PartialEq, Eq, PartialOrd, Ord, Hash)]
pub struct DimSet {
    pub size_bits: u64,
    pub hidden: bool,
    /// index of the dimension's own style in the harness's style table (0 = none, 255 = a style outside the table)
    pub style: u8,
}

#[derive(Clone, Debug, PartialEq, Eq, Default)]
pub struct RefSheet {
    pub name: String,
    /// key = (row, col)
    pub cells: BTreeMap<(u32, u32), RefCell>,
    pub rows: BTreeMap<u32, DimSet>,
    pub cols: BTreeMap<u32, DimSet>,
    /// multiset, kept sorted
    pub merges: Vec<Rect>,
    /// key = (row, col); several comments on one cell are kept as a sorted list of texts
    pub comments: BTreeMap<(u32, u32), Vec<String>>,
    /// (rule tag, rectangles); kept sorted
    pub cfs: Vec<(String, Vec<Rect>)>,
    pub filter: Option<Rect>,
}
pub type RefBook = Vec<RefSheet>;

// ------------------------------------------------------------------------------------------------
// scalar rules

/// position of `x` after inserting `n` lines at `p`
pub fn ins_point(x: u32, p: u32, n: u32) -> u32 {
    if x >= p {
        x + n
    } else {
        x
    }
}
/// position of `x` after removing lines p..p+n-1 (None: x was inside the band)
pub fn rem_point(x: u32, p: u32, n: u32) -> Option<u32> {
    if x < p {
        Some(x)
    } else if x < p + n {
        None
    } else {
        Some(x - n)
    }
}
/// span [a,b] after an insert: both ends follow the point rule (a span straddling p grows)
pub fn ins_span(s: (u32, u32), p: u32, n: u32) -> (u32, u32) {
    (ins_point(s.0, p, n), ins_point(s.1, p, n))
}
/// span [a,b] after a removal = bounding box of the surviving points (closed form)
pub fn rem_span(s: (u32, u32), p: u32, n: u32) -> Option<(u32, u32)> {
    let (a, b) = s;
    // first survivor at or after a
    let a2 = match rem_point(a, p, n) {
        Some(x) => x,
        None => p, // the first line after the band lands on p
    };
    // last survivor at or before b
    let b2 = match rem_point(b, p, n) {
        Some(x) => x as i64,
        None => p as i64 - 1,
    };
    if (a2 as i64) > b2 {
        None
    } else {
        Some((a2, b2 as u32))
    }
}
/// the same by literal enumeration of the set of lines (used to self-check the closed form)
pub fn rem_span_literal(s: (u32, u32), p: u32, n: u32) -> Option<(u32, u32)> {
    let mut lo: Option<u32> = None;
    let mut hi: Option<u32> = None;
    let mut x = s.0;
    while x <= s.1 {
        if let Some(y) = rem_point(x, p, n) {
            lo = Some(lo.map_or(y, |l| l.min(y)));
            hi = Some(hi.map_or(y, |h| h.max(y)));
        }
        x += 1;
    }
    match (lo, hi) {
        (Some(l), Some(h)) => Some((l, h)),
        _ => None,
    }
}
pub fn ins_span_literal(s: (u32, u32), p: u32, n: u32) -> (u32, u32) {
    let mut lo = u32::MAX;
    let mut hi = 0;
    let mut x = s.0;
    while x <= s.1 {
        let y = ins_point(x, p, n);
        lo = lo.min(y);
        hi = hi.max(y);
        x += 1;
    }
    (lo, hi)
}

/// Machinery self-check: closed forms == literal set semantics on a small complete domain.
pub fn self_check() -> Result<(), String> {
    for a in 1..=12u32 {
        for b in a..=12 {
            for p in 1..=14u32 {
                for n in 1..=5u32 {
                    if rem_span((a, b), p, n) != rem_span_literal((a, b), p, n) {
                        return Err(format!("rem_span({},{},{},{})", a, b, p, n));
                    }
                    if ins_span((a, b), p, n) != ins_span_literal((a, b), p, n) {
                        return Err(format!("ins_span({},{},{},{})", a, b, p, n));
                    }
                }
            }
        }
    }
    Ok(())
}

pub fn ins_rect(r: &Rect, ax: Axis, p: u32, n: u32) -> Rect {
    r.with_span(ax, ins_span(r.span(ax), p, n))
}
pub fn rem_rect(r: &Rect, ax: Axis, p: u32, n: u32) -> Option<Rect> {
    rem_span(r.span(ax), p, n).map(|s| r.with_span(ax, s))
}
pub fn ins_key(k: (u32, u32), ax: Axis, p: u32, n: u32) -> (u32, u32) {
    match ax {
        Axis::Row => (ins_point(k.0, p, n), k.1),
        Axis::Col => (k.0, ins_point(k.1, p, n)),
    }
}
pub fn rem_key(k: (u32, u32), ax: Axis, p: u32, n: u32) -> Option<(u32, u32)> {
    match ax {
        Axis::Row => rem_point(k.0, p, n).map(|r| (r, k.1)),
        Axis::Col => rem_point(k.1, p, n).map(|c| (k.0, c)),
    }
}

// ------------------------------------------------------------------------------------------------
// sheet operations

impl RefSheet {
    pub fn normalise(&mut self) {
        self.merges.sort();
        for (_, v) in self.cfs.iter_mut() {
            v.sort();
        }
        self.cfs.sort();
        for (_, v) in self.comments.iter_mut() {
            v.sort();
        }
    }

    pub fn insert(&mut self, ax: Axis, p: u32, n: u32) {
        self.cells = std::mem::take(&mut self.cells).into_iter().map(|(k, v)| (ins_key(k, ax, p, n), v)).collect();
        self.comments = std::mem::take(&mut self.comments).into_iter().map(|(k, v)| (ins_key(k, ax, p, n), v)).collect();
        match ax {
            Axis::Row => self.rows = std::mem::take(&mut self.rows).into_iter().map(|(k, v)| (ins_point(k, p, n), v)).collect(),
            Axis::Col => self.cols = std::mem::take(&mut self.cols).into_iter().map(|(k, v)| (ins_point(k, p, n), v)).collect(),
        }
        for m in self.merges.iter_mut() {
            *m = ins_rect(m, ax, p, n);
        }
        for (_, v) in self.cfs.iter_mut() {
            for r in v.iter_mut() {
                *r = ins_rect(r, ax, p, n);
            }
        }
        self.filter = self.filter.map(|f| ins_rect(&f, ax, p, n));
        self.normalise();
    }

    pub fn remove(&mut self, ax: Axis, p: u32, n: u32) {
        self.cells = std::mem::take(&mut self.cells).into_iter().filter_map(|(k, v)| rem_key(k, ax, p, n).map(|k2| (k2, v))).collect();
        self.comments = std::mem::take(&mut self.comments).into_iter().filter_map(|(k, v)| rem_key(k, ax, p, n).map(|k2| (k2, v))).collect();
        match ax {
            Axis::Row => self.rows = std::mem::take(&mut self.rows).into_iter().filter_map(|(k, v)| rem_point(k, p, n).map(|k2| (k2, v))).collect(),
            Axis::Col => self.cols = std::mem::take(&mut self.cols).into_iter().filter_map(|(k, v)| rem_point(k, p, n).map(|k2| (k2, v))).collect(),
        }
        self.merges = self.merges.iter().filter_map(|m| rem_rect(m, ax, p, n)).collect();
        let mut cfs = vec![];
        for (tag, v) in self.cfs.iter() {
            let v2: Vec<Rect> = v.iter().filter_map(|r| rem_rect(r, ax, p, n)).collect();
            if !v2.is_empty() {
                cfs.push((tag.clone(), v2));
            }
        }
        self.cfs = cfs;
        self.filter = self.filter.and_then(|f| rem_rect(&f, ax, p, n));
        self.normalise();
    }

    /// cells of `src` (row-major), as (key, cell)
    pub fn cells_in(&self, src: &Rect) -> Vec<((u32, u32), RefCell)> {
        self.cells.iter().filter(|(k, _)| src.contains(k.0, k.1)).map(|(k, v)| (*k, v.clone())).collect()
    }

    pub fn move_range(&mut self, src: &Rect, dr: i32, dc: i32) {
        let taken = self.cells_in(src);
        let dst = src.translated(dr, dc);
        self.cells.retain(|k, _| !src.contains(k.0, k.1) && !dst.contains(k.0, k.1));
        for (k, v) in taken {
            self.cells.insert(((k.0 as i64 + dr as i64) as u32, (k.1 as i64 + dc as i64) as u32), v);
        }
    }

    pub fn copy_range(&mut self, src: &Rect, dr: i32, dc: i32) {
        let taken = self.cells_in(src);
        for (k, v) in taken {
            self.cells.insert(((k.0 as i64 + dr as i64) as u32, (k.1 as i64 + dc as i64) as u32), v);
        }
    }
}
