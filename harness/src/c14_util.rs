//! Shared by C14 and C15: hash primitives (RustCrypto sha2/hmac used as primitives only), the two ECMA-376
//! password iteration orders, password alphabets, byte search, and the cross-case "freshness" records.
//! Nothing here calls umya_spreadsheet::helper::crypt.
use crate::common::*;
use hmac::{Hmac, Mac};
use serde_json::{json, Value};
use sha2::{Digest, Sha256, Sha384, Sha512};

#[derive(Clone, Copy, PartialEq, Eq, Debug)]
pub enum HashAlg {
    Sha256,
    Sha384,
    Sha512,
}

impl HashAlg {
    /// names used in the agile EncryptionInfo descriptor (MS-OFFCRYPTO 2.3.4.10)
    pub fn from_agile(name: &str) -> Option<HashAlg> {
        match name {
            "SHA256" => Some(HashAlg::Sha256),
            "SHA384" => Some(HashAlg::Sha384),
            "SHA512" => Some(HashAlg::Sha512),
            _ => None,
        }
    }
    /// names used by sheetProtection/workbookProtection algorithmName (ECMA-376 part 1, 18.2.29 / 18.3.1.85)
    pub fn from_ooxml(name: &str) -> Option<HashAlg> {
        match name {
            "SHA-256" => Some(HashAlg::Sha256),
            "SHA-384" => Some(HashAlg::Sha384),
            "SHA-512" => Some(HashAlg::Sha512),
            _ => None,
        }
    }
    pub fn len(&self) -> usize {
        match self {
            HashAlg::Sha256 => 32,
            HashAlg::Sha384 => 48,
            HashAlg::Sha512 => 64,
        }
    }
    pub fn hash(&self, parts: &[&[u8]]) -> Vec<u8> {
        match self {
            HashAlg::Sha256 => {
                let mut d = Sha256::new();
                for p in parts {
                    d.update(p);
                }
                d.finalize().to_vec()
            }
            HashAlg::Sha384 => {
                let mut d = Sha384::new();
                for p in parts {
                    d.update(p);
                }
                d.finalize().to_vec()
            }
            HashAlg::Sha512 => {
                let mut d = Sha512::new();
                for p in parts {
                    d.update(p);
                }
                d.finalize().to_vec()
            }
        }
    }
    pub fn hmac(&self, key: &[u8], data: &[u8]) -> Vec<u8> {
        match self {
            HashAlg::Sha256 => {
                let mut m = Hmac::<Sha256>::new_from_slice(key).expect("hmac key");
                m.update(data);
                m.finalize().into_bytes().to_vec()
            }
            HashAlg::Sha384 => {
                let mut m = Hmac::<Sha384>::new_from_slice(key).expect("hmac key");
                m.update(data);
                m.finalize().into_bytes().to_vec()
            }
            HashAlg::Sha512 => {
                let mut m = Hmac::<Sha512>::new_from_slice(key).expect("hmac key");
                m.update(data);
                m.finalize().into_bytes().to_vec()
            }
        }
    }
}

pub fn utf16le(s: &str) -> Vec<u8> {
    let mut v = Vec::with_capacity(s.len() * 2);
    for u in s.encode_utf16() {
        v.push((u & 0xff) as u8);
        v.push((u >> 8) as u8);
    }
    v
}

/// MS-OFFCRYPTO 2.3.4.11 (file encryption): H0 = H(salt || pw), Hn = H(LE32(i) || Hn-1), i = 0..spin-1.
/// Returns the hash BEFORE the final H(h || blockKey) step.
pub fn spin_counter_first(alg: HashAlg, salt: &[u8], pw: &str, spin: u32) -> Vec<u8> {
    let mut h = alg.hash(&[salt, &utf16le(pw)]);
    for i in 0..spin {
        h = alg.hash(&[&i.to_le_bytes(), &h]);
    }
    h
}

/// ECMA-376 part 1, 18.2.29 / 18.3.1.85 (protection verifier; same as part 4 14.7.1 / MS-OFFCRYPTO 2.4.2.4):
/// H0 = H(salt || pw), Hn = H(Hn-1 || LE32(i)), i = 0..spin-1.
pub fn spin_hash_first(alg: HashAlg, salt: &[u8], pw: &str, spin: u32) -> Vec<u8> {
    let mut h = alg.hash(&[salt, &utf16le(pw)]);
    for i in 0..spin {
        h = alg.hash(&[&h, &i.to_le_bytes()]);
    }
    h
}

pub fn hex(b: &[u8]) -> String {
    let mut s = String::with_capacity(b.len() * 2);
    for x in b {
        s.push_str(&format!("{:02x}", x));
    }
    s
}

pub fn contains_sub(hay: &[u8], needle: &[u8]) -> bool {
    if needle.is_empty() || hay.len() < needle.len() {
        return false;
    }
    hay.windows(needle.len()).any(|w| w == needle)
}

// -------------------------------------------------------------------------------------------------
// passwords

#[derive(Clone, Debug)]
pub struct Pw {
    pub text: String,
    /// feature tag; None for the baseline password "password"
    pub tag: Option<&'static str>,
}

fn pw(text: &str, tag: &'static str) -> Pw {
    Pw { text: text.to_string(), tag: Some(tag) }
}

/// The stated alphabet (both tiers): empty, 1 ASCII char, ASCII word (baseline), 255 chars, Latin-1 letters,
/// CJK (BMP), non-BMP (surrogate pairs).
pub fn base_passwords() -> Vec<Pw> {
    vec![
        Pw { text: "password".into(), tag: None },
        pw("", "pw-empty"),
        pw("a", "pw-1char"),
        pw(&"x".repeat(255), "pw-255chars"),
        pw("pässwörd", "pw-latin1"),
        pw("密码", "pw-cjk"),
        pw("🔑🔑", "pw-nonbmp"),
        // white space at both ends is part of the password (a line read from a file keeps its line end)
        pw(" edge blanks\r\n", "pw-edge-whitespace"),
    ]
}

/// Extra passwords of the thorough tier.
pub fn extra_passwords() -> Vec<Pw> {
    vec![
        pw("A", "pw-1char"),
        pw("é", "pw-latin1"),
        pw("PASSWORD", "pw-uppercase"),
        pw("password ", "pw-trailing-space"),
        pw(" ", "pw-space-only"),
        pw("\u{3000}構造\t", "pw-unicode-edge-whitespace"),
        pw("P@ssw0rd!<&\"'>", "pw-xml-specials"),
        pw(&"x".repeat(254), "pw-254chars"),
        pw(&"0123456789".repeat(10), "pw-100chars"),
        pw("a🔑b密é", "pw-mixed-planes"),
        pw("𝔘𝔫𝔦", "pw-nonbmp"),
        pw(&"k".repeat(56), "pw-56chars"),
        pw("\u{feff}pw", "pw-bom-prefixed"),
        pw("\u{ffff}", "pw-uffff"),
        pw("pass\tword", "pw-tab"),
    ]
}

/// Wrong passwords that must be rejected for `right`: one more character, empty (or "x" for the empty password,
/// already covered by the first), one character fewer.
pub fn wrong_passwords(right: &str) -> Vec<String> {
    let mut v = vec![format!("{}x", right)];
    if !right.is_empty() {
        v.push(String::new());
    }
    let n = right.chars().count();
    if n >= 2 {
        v.push(right.chars().take(n - 1).collect());
    }
    v
}

// -------------------------------------------------------------------------------------------------
// freshness records: every case of the main space writes the random material it observed; the one-case
// "freshness" space (run after the main space by run_e1) reads all of them and checks pairwise distinctness.

pub fn record_path(prop: &str, tier: Tier, index: u64) -> String {
    let d = format!("{}/rand", work_dir(prop));
    let _ = std::fs::create_dir_all(&d);
    format!("{}/{}-{}.json", d, tier.name(), index)
}

/// items: (pool, field, run, hex value)
pub fn write_record(prop: &str, tier: Tier, index: u64, items: &[(String, String, u32, String)]) {
    let arr: Vec<Value> = items.iter().map(|(p, f, r, h)| json!({"pool": p, "field": f, "run": r, "hex": h})).collect();
    let _ = std::fs::write(record_path(prop, tier, index), serde_json::to_string(&json!({"index": index, "items": arr})).unwrap());
}

pub fn clear_record(prop: &str, tier: Tier, index: u64) {
    let _ = std::fs::remove_file(record_path(prop, tier, index));
}

pub struct Freshness {
    pub records_read: u64,
    pub records_missing: u64,
    pub values: u64,
    /// (pool, field a, where a, field b, where b, hex)
    pub repeats: Vec<(String, String, String, String, String, String)>,
    pub all_hex: Vec<String>,
}

/// Read records 0..n of the tier; values within one pool must be pairwise distinct.
pub fn check_freshness(prop: &str, tier: Tier, n: u64) -> Freshness {
    use std::collections::HashMap;
    let mut out = Freshness { records_read: 0, records_missing: 0, values: 0, repeats: vec![], all_hex: vec![] };
    let mut seen: HashMap<(String, String), (String, String)> = HashMap::new();
    for i in 0..n {
        let txt = match std::fs::read_to_string(record_path(prop, tier, i)) {
            Ok(t) => t,
            Err(_) => {
                out.records_missing += 1;
                continue;
            }
        };
        let v: Value = match serde_json::from_str(&txt) {
            Ok(v) => v,
            Err(_) => {
                out.records_missing += 1;
                continue;
            }
        };
        out.records_read += 1;
        for it in v["items"].as_array().cloned().unwrap_or_default() {
            let pool = it["pool"].as_str().unwrap_or("").to_string();
            let field = it["field"].as_str().unwrap_or("").to_string();
            let hx = it["hex"].as_str().unwrap_or("").to_string();
            let wh = format!("case {} run {}", i, it["run"].as_u64().unwrap_or(0));
            out.values += 1;
            out.all_hex.push(hx.clone());
            match seen.get(&(pool.clone(), hx.clone())) {
                Some((f0, w0)) => {
                    if out.repeats.len() < 50 {
                        out.repeats.push((pool.clone(), f0.clone(), w0.clone(), field.clone(), wh.clone(), hx.clone()));
                    }
                }
                None => {
                    seen.insert((pool, hx), (field, wh));
                }
            }
        }
    }
    out
}
