//! Standard flow of an E1 (bounded-exhaustive enumeration) check.
use crate::common::*;
use crate::pool::*;
use serde_json::{json, Map, Value};
use std::collections::BTreeMap;

pub struct E1Spec {
    pub spaces: Vec<(&'static str, Box<dyn Space>)>,
    pub cfg: PoolCfg,
    pub level: &'static str,
    pub rule: String,
    pub alphabets: Value,
    pub bounds: Value,
    pub exhaustive: bool,
    pub caps_hit: Vec<String>,
    pub assumptions: Vec<String>,
    /// minimum number of distinct non-trivial observations below which the run is considered vacuous
    pub min_distinct: u64,
}

pub fn run_e1(ctx: &Ctx, spec: E1Spec) -> i32 {
    run_e1_with(ctx, spec, |_, _| {})
}

/// Like `run_e1`, with a hook that may add coverage keys (it gets the coverage map and the merged counters).
pub fn run_e1_with(ctx: &Ctx, spec: E1Spec, post: impl FnOnce(&mut Map<String, Value>, &BTreeMap<String, u64>)) -> i32 {
    let mut violations = vec![];
    let mut class_counts: BTreeMap<(String, String), u64> = BTreeMap::new();
    let mut evaluations = 0;
    let mut distinct = 0;
    let mut cases = 0;
    let mut samples = vec![];
    let mut per_space = vec![];
    let mut counters: BTreeMap<String, u64> = BTreeMap::new();
    let mut hangs = 0;
    let mut crashes = 0;
    let mut stopped_early: Option<String> = None;
    for (id, sp) in &spec.spaces {
        let t0 = std::time::Instant::now();
        let r = run_parent(ctx, id, sp.as_ref(), &spec.cfg);
        if r.cases_done + r.hangs + r.crashes < r.len && r.hangs + r.crashes == 0 {
            eprintln!("MACHINERY: space {} of {}: {} of {} cases reported", id, ctx.prop, r.cases_done, r.len);
            return 2;
        }
        per_space.push(json!({"space": id, "cases": r.len, "evaluations": r.evaluations, "distinct_nontrivial": r.distinct,
            "hangs": r.hangs, "crashes": r.crashes, "wall_s": (t0.elapsed().as_secs_f64()*100.0).round()/100.0}));
        evaluations += r.evaluations;
        distinct += r.distinct;
        cases += r.len;
        hangs += r.hangs;
        crashes += r.crashes;
        for (k, n) in r.class_counts {
            *class_counts.entry(k).or_insert(0) += n;
        }
        for (k, n) in r.counters {
            *counters.entry(k).or_insert(0) += n;
        }
        for s in r.samples.into_iter().take(4) {
            samples.push(json!({"space": id, "case": s}));
        }
        violations.extend(r.violations);
        // iterative bounding: a space whose id starts with "first:" is the cheap low-bound pass of the spaces that
        // follow it; when it already reports violations the (possibly much larger) higher-bound passes add nothing to
        // the verdict and are not run
        if id.starts_with("first:") && !violations.is_empty() {
            stopped_early = Some(format!("space {} reported violations: the spaces after it were not run", id));
            break;
        }
    }
    let mut caps_hit = spec.caps_hit;
    if let Some(s) = stopped_early {
        caps_hit.push(s);
    } else if distinct < spec.min_distinct {
        eprintln!("MACHINERY: vacuous run of {}: only {} distinct non-trivial observations (< {})", ctx.prop, distinct, spec.min_distinct);
        return 2;
    }
    let mut cov = Map::new();
    cov.insert("evaluations".into(), json!(evaluations));
    cov.insert("distinct_nontrivial".into(), json!(distinct));
    cov.insert("rule".into(), json!(spec.rule));
    cov.insert("samples".into(), json!(samples));
    cov.insert("exhaustive".into(), json!(spec.exhaustive));
    cov.insert("cases".into(), json!(cases));
    cov.insert("per_space".into(), json!(per_space));
    cov.insert("alphabets".into(), spec.alphabets);
    cov.insert("bounds".into(), spec.bounds);
    cov.insert("caps_hit".into(), json!(caps_hit));
    cov.insert("counters".into(), json!(counters.clone()));
    if spec.level == "model_checking" {
        let tr = counters.get("transitions").cloned().unwrap_or(evaluations);
        cov.insert("states".into(), json!(distinct.max(1)));
        cov.insert("transitions".into(), json!(tr.max(1)));
        cov.insert("traces_validated_against_impl".into(), json!(tr));
    }
    cov.insert("hangs".into(), json!(hangs));
    cov.insert("crashes".into(), json!(crashes));
    post(&mut cov, &counters);
    finish(ctx, Outcome { level: spec.level, coverage: cov, violations, violation_counts: class_counts, assumptions: spec.assumptions })
}

/// Generic replay for E1 checks: re-run the pool case recorded in the violation.
pub fn replay_e1(space: Option<Box<dyn Space>>, case: &Value) -> Vec<Violation> {
    let sp = match space {
        Some(s) => s,
        None => {
            eprintln!("replay: unknown space");
            return vec![];
        }
    };
    let i = case["_index"].as_u64().unwrap_or(0);
    let sink = run_one(sp.as_ref(), i);
    sink.violations
}
