//! uvcheck <Cxx> <quick|thorough>      run a check, write /verif/evidence/<Cxx>.json
//! uvcheck --replay <file>             re-run the case recorded in a replay file
//! uvcheck --worker ...                internal (pool worker)
#![allow(dead_code)]
mod common;
mod pool;
mod e1;
mod e2;
mod dump;
mod pyref;
mod wbuild;
mod c01;
mod c02;
mod c03;
mod c04;
mod c05;
mod c06;
mod c07;
mod c08;
mod c09;
mod c10;
mod c11;
mod c12;
mod c13;
mod c14;
mod c15;
mod c16;
mod c17;
mod c18;
mod c19;
mod c20;

use common::*;

pub struct Entry {
    pub id: &'static str,
    pub run: fn(&Ctx) -> i32,
    pub space: fn(Tier, &str) -> Option<Box<dyn pool::Space>>,
    pub replay: fn(Tier, &serde_json::Value) -> Vec<Violation>,
}

fn registry() -> Vec<Entry> {
    vec![
        c01::entry(),
        c02::entry(),
        c03::entry(),
        c04::entry(),
        c05::entry(),
        c06::entry(),
        c07::entry(),
        c08::entry(),
        c09::entry(),
        c10::entry(),
        c11::entry(),
        c12::entry(),
        c13::entry(),
        c14::entry(),
        c15::entry(),
        c16::entry(),
        c17::entry(),
        c18::entry(),
        c19::entry(),
        c20::entry(),
    ]
}

fn main() {
    let args: Vec<String> = std::env::args().collect();
    if args.len() < 2 {
        eprintln!("usage: uvcheck <Cxx> <quick|thorough> | --replay <file>");
        std::process::exit(2);
    }
    let reg = registry();
    if args[1] == "--worker" {
        // --worker <prop> <tier> <space> <pool args...>
        let prop = &args[2];
        let tier = Tier::parse(&args[3]);
        let e = reg.iter().find(|e| e.id == prop).expect("unknown property");
        let sp = (e.space)(tier, &args[4]).expect("unknown space");
        std::process::exit(pool::run_worker(sp.as_ref(), &args[5..]));
    }
    if args[1] == "--replay" {
        let txt = std::fs::read_to_string(&args[2]).expect("replay file");
        let v: serde_json::Value = serde_json::from_str(&txt).expect("replay json");
        let prop = v["property"].as_str().unwrap_or("");
        let tier = Tier::parse(v["tier"].as_str().unwrap_or("quick"));
        let e = reg.iter().find(|e| e.id == prop).expect("unknown property");
        quiet_panics();
        let vs = (e.replay)(tier, &v["violation"]["case"]);
        let known = load_known(prop);
        let mut bad = 0;
        for x in &vs {
            let cov = covering(&known, x).map(|k| k.id.clone());
            println!("clause={} symptom={} tags={:?} known={:?}\n  {}", x.clause, x.symptom, x.tags, cov, x.detail);
            if cov.is_none() {
                bad += 1;
            }
        }
        println!("replay: {} violation(s), {} not covered by known findings", vs.len(), bad);
        std::process::exit(if bad > 0 { 1 } else { 0 });
    }
    let prop = args[1].clone();
    let tier = Tier::parse(args.get(2).map(|s| s.as_str()).unwrap_or(&std::env::var("VERIF_TIER").unwrap_or("quick".into())));
    let e = match reg.iter().find(|e| e.id == prop) {
        Some(e) => e,
        None => {
            eprintln!("unknown property {}", prop);
            std::process::exit(2);
        }
    };
    let ctx = Ctx::new(&prop, tier);
    std::process::exit((e.run)(&ctx));
}
