fn main(){}
